// ---- C03: the errexit decision (bash manual, `set -e`: "Exit immediately if a pipeline ... returns a non-zero status";
//      POSIX 2.8.1).  Applied at a statement boundary that is *not* exempt (the exemption is the callers' business, U4):
//      the result becomes "exit the shell" iff the option is on, the command failed, and no other control flow is pending.
//      The exit code is never changed.
pub open spec fn errexit_spec(on: bool, r: ExecutionResult) -> ExecutionResult {
    if on && !(r.exit_code is Success) && r.next_control_flow is Normal {
        ExecutionResult { next_control_flow: ExecutionControlFlow::ExitShell, exit_code: r.exit_code }
    } else { r }
}
#[verifier::external_body]
pub struct ShellRest { _p: u8 }
#[verifier::external_body]
pub struct OptionsRest { _p: u8 }
// projections of options.rs RuntimeOptions and shell.rs Shell (field presence checked against the source on every run)
pub struct RuntimeOptions { pub exit_on_nonzero_command_exit: bool, pub treat_unset_variables_as_error: bool, pub rest: OptionsRest }
pub struct Shell { pub options: RuntimeOptions, pub rest: ShellRest }
impl Shell {
    pub fn options(&self) -> (r: &RuntimeOptions) ensures *r == self.options { &self.options }
}

// ---- C03: nounset (bash manual, `set -u`: "Treat unset variables and parameters ... as an error when performing parameter
//      expansion"; the operators that tolerate unset — ${v-w} ${v+w} ${v=w} ${v?w} and friends — pass allow_unset_vars).
pub mod error {
    use vstd::prelude::*;
    pub enum ErrorKind { ExpandingUnsetVariable(String) }
    #[verifier::external_body]
    pub struct Error { _p: u8 }
    impl Error {
        pub uninterp spec fn fatal(&self) -> bool;
        pub uninterp spec fn unset_var(&self) -> bool;
        #[verifier::external_body]
        pub fn into_fatal(self) -> (r: Self) ensures r.fatal(), r.unset_var() == self.unset_var() { unimplemented!() }
    }
    impl vstd::std_specs::convert::FromSpecImpl<ErrorKind> for Error {
        open spec fn obeys_from_spec() -> bool { false }
        open spec fn from_spec(k: ErrorKind) -> Self { arbitrary() }
    }
    impl From<ErrorKind> for Error {
        #[verifier::external_body]
        fn from(k: ErrorKind) -> (r: Self) ensures r.unset_var() { unimplemented!() }
    }
}
pub mod brush_parser { pub mod word {
    use vstd::prelude::*;
    #[verifier::external_body]
    pub struct Parameter { _p: u8 }
    impl Parameter {
        #[verifier::external_body]
        pub fn to_string(&self) -> String { unimplemented!() }
    }
} }
#[verifier::external_body]
pub struct Expansion { _p: u8 }
impl Expansion {
    pub uninterp spec fn is_undefined(&self) -> bool;
    #[verifier::external_body]
    pub fn undefined() -> (r: Self) ensures r.is_undefined() { unimplemented!() }
}
#[verifier::external_body]
pub struct ExpanderRest { _p: u8 }
// projection of expansion.rs WordExpander; the real field is `pub struct WordExpander<'a> { pub shell: &'a mut Shell, pub rest: ExpanderRest }'a mut Shell<SE>` — the function under contract only reads it
pub struct WordExpander<'a> { pub shell: &'a Shell, pub rest: ExpanderRest }
