// ---- C03 nounset threading: `set -u` must reject exactly the expansions bash rejects.  The operators that tolerate an unset
//      parameter (${v-w} ${v:=w} ${v+w} ${v?w} ...) call expand_parameter_allowing_unset; everything else calls
//      expand_parameter.  Whatever path the expansion takes — including the second lookup of an indirect ${!ref...} — the
//      tolerance flag that reaches undefined_expansion must be the caller's.
pub mod error {
    use vstd::prelude::*;
    #[verifier::external_body]
    pub struct Error { _p: u8 }
}
pub mod brush_parser { pub mod word {
    use vstd::prelude::*;
    #[verifier::external_body]
    pub struct Parameter { _p: u8 }
    #[verifier::external_body]
    pub struct ParseError { _p: u8 }
    #[verifier::external_body]
    pub struct ParserOptions { _p: u8 }
    #[verifier::external_body]
    pub fn parse_parameter(s: &str, options: &ParserOptions) -> Result<Parameter, ParseError> { unimplemented!() }
} }
impl vstd::std_specs::convert::FromSpecImpl<brush_parser::word::ParseError> for error::Error {
    open spec fn obeys_from_spec() -> bool { false }
    open spec fn from_spec(e: brush_parser::word::ParseError) -> Self { arbitrary() }
}
impl From<brush_parser::word::ParseError> for error::Error { #[verifier::external_body] fn from(e: brush_parser::word::ParseError) -> Self { unimplemented!() } }
#[verifier::external_body]
pub struct Expansion { _p: u8 }
#[verifier::external_body]
pub struct ExpanderRest { _p: u8 }
// projection of expansion.rs WordExpander; `rest` carries the ghost log of lookups
pub struct WordExpander { pub parser_options: brush_parser::word::ParserOptions, pub rest: ExpanderRest }
impl ExpanderRest { pub uninterp spec fn lookups(&self) -> Seq<(brush_parser::word::Parameter, bool)>; }
impl WordExpander {
    pub open spec fn lookups(&self) -> Seq<(brush_parser::word::Parameter, bool)> { self.rest.lookups() }
    // one parameter lookup: logs (parameter, tolerance flag it was given)
    #[verifier::external_body]
    pub fn expand_parameter_without_indirect(&mut self, parameter: &brush_parser::word::Parameter, allow_unset_vars: bool) -> (r: Result<Expansion, error::Error>)
        ensures final(self).lookups() == old(self).lookups().push((*parameter, allow_unset_vars))
    { unimplemented!() }
    #[verifier::external_body]
    pub fn fields_to_string(&self, expansion: Expansion) -> String { unimplemented!() }
}
pub open spec fn all_with_flag(old_l: Seq<(brush_parser::word::Parameter, bool)>, new_l: Seq<(brush_parser::word::Parameter, bool)>, flag: bool) -> bool {
    &&& old_l.is_prefix_of(new_l)
    &&& forall|i: int| old_l.len() <= i < new_l.len() ==> (#[trigger] new_l[i]).1 == flag
}
