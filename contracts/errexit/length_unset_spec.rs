// ---- prelude: ${#parameter} under nounset (expansion.rs, ParameterLength arm).  bash: "${#name}" of an unset NAME is an error under
//  `set -u` (also when the name is declared but has no value); only a subscripted form — ${#a[i]}, ${#a[@]} — on an existing variable
//  is tolerated and yields 0.
#[verifier::external_body] pub struct SpecialParameter { _p: u8 }
#[verifier::external_body] pub struct WordExpander { _p: u8 }
impl WordExpander { pub uninterp spec fn has_var(&self, name: Seq<char>) -> bool; }
// R14: `self.shell.env().get(name).is_some()`
#[verifier::external_body]
pub fn env_has(self_: &WordExpander, name: &String) -> (r: bool) ensures r == self_.has_var(name@) { unimplemented!() }
pub mod brush_parser { pub mod word { pub use super::super::Parameter; } }
