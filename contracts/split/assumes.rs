pub uninterp spec fn str_contains_spec<P>(s: Seq<char>, p: P) -> bool;
pub assume_specification<P: std::str::pattern::Pattern> [str::contains] (s: &str, p: P) -> (r: bool)
    ensures r == str_contains_spec(s@, p);
pub assume_specification<T: Default> [std::mem::take] (t: &mut T) -> (r: T)
    ensures r == *old(t), *final(t) == default_spec::<T>();
pub uninterp spec fn default_spec<T>() -> T;
pub broadcast axiom fn axiom_wordfield_default() ensures (#[trigger] default_spec::<WordField>()).0@ == Seq::<ExpansionPiece>::empty();
pub broadcast axiom fn axiom_char_to_string(c: char, s: String)
    requires #[trigger] to_string_from_display_ensures::<char>(&c, s),
    ensures s@ == seq![c];

