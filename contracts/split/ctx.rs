#[verifier::external_body]
pub struct Shell { _p: u8 }
impl Shell {
    pub uninterp spec fn ifs_spec(&self) -> Seq<char>;
    #[verifier::external_body]
    pub fn ifs(&self) -> (r: String) ensures r@ == self.ifs_spec() { unimplemented!() }
}
// projection of expansion.rs WordExpander: the real field is `&'a mut Shell<SE>`; split_fields only reads it
pub struct WordExpander<'a> { pub shell: &'a Shell }
impl<'a> WordExpander<'a> { pub open spec fn ifs_spec(&self) -> Seq<char> { self.shell.ifs_spec() } }

