// ---------------- spec
pub enum Piece { U(Seq<char>), S(Seq<char>) }
pub open spec fn pv(p: ExpansionPiece) -> Piece { match p { ExpansionPiece::Unsplittable(s) => Piece::U(s@), ExpansionPiece::Splittable(s) => Piece::S(s@) } }
pub open spec fn fv(f: WordField) -> Seq<Piece> { f.0@.map_values(|p: ExpansionPiece| pv(p)) }
pub open spec fn fsv(fs: Seq<WordField>) -> Seq<Seq<Piece>> { fs.map_values(|f: WordField| fv(f)) }

pub struct SF { pub done: Seq<Seq<Piece>>, pub cur: Seq<Piece> }
pub open spec fn mk(done: Seq<Seq<Piece>>, cur: Seq<Piece>) -> SF { SF { done, cur } }
pub open spec fn sf0() -> SF { SF { done: Seq::empty(), cur: Seq::empty() } }
pub open spec fn is_ifs(ifs: Seq<char>, c: char) -> bool { str_contains_spec(ifs, c) }
pub open spec fn flush(st: SF) -> SF { if st.cur.len() > 0 { SF { done: st.done.push(st.cur), cur: Seq::empty() } } else { st } }
pub open spec fn add_char(cur: Seq<Piece>, c: char) -> Seq<Piece> {
    if cur.len() > 0 && cur.last() is S { cur.drop_last().push(Piece::S(cur.last()->S_0.push(c))) } else { cur.push(Piece::S(seq![c])) }
}
pub open spec fn sf_char(st: SF, c: char, ifs: Seq<char>) -> SF { if is_ifs(ifs, c) { flush(st) } else { SF { done: st.done, cur: add_char(st.cur, c) } } }
pub open spec fn sf_chars(st: SF, cs: Seq<char>, ifs: Seq<char>) -> SF decreases cs.len() {
    if cs.len() == 0 { st } else { sf_char(sf_chars(st, cs.drop_last(), ifs), cs.last(), ifs) }
}
pub open spec fn sf_piece(st: SF, p: Piece, ifs: Seq<char>) -> SF {
    match p { Piece::U(s) => SF { done: st.done, cur: st.cur.push(Piece::U(s)) }, Piece::S(s) => sf_chars(st, s, ifs) }
}
pub open spec fn sf_pieces(st: SF, ps: Seq<Piece>, ifs: Seq<char>) -> SF decreases ps.len() {
    if ps.len() == 0 { st } else { sf_piece(sf_pieces(st, ps.drop_last(), ifs), ps.last(), ifs) }
}
pub open spec fn sf_fields(st: SF, fs: Seq<Seq<Piece>>, ifs: Seq<char>) -> SF decreases fs.len() {
    if fs.len() == 0 { st } else { flush(sf_pieces(sf_fields(st, fs.drop_last(), ifs), fs.last(), ifs)) }
}


// ---------------- property lemma L1 (C04): quoted (Unsplittable) pieces pass through whole, in order
pub open spec fn ustr(ps: Seq<Piece>) -> Seq<Seq<char>> decreases ps.len() {
    if ps.len() == 0 { Seq::empty() } else { let r = ustr(ps.drop_last()); match ps.last() { Piece::U(s) => r.push(s), Piece::S(_) => r } }
}
pub open spec fn ustr_fs(fs: Seq<Seq<Piece>>) -> Seq<Seq<char>> decreases fs.len() {
    if fs.len() == 0 { Seq::empty() } else { ustr_fs(fs.drop_last()) + ustr(fs.last()) }
}
pub open spec fn ustr_st(st: SF) -> Seq<Seq<char>> { ustr_fs(st.done) + ustr(st.cur) }

pub proof fn l1_flush(st: SF) ensures ustr_st(flush(st)) =~= ustr_st(st), flush(st).cur.len() == 0
{
    if st.cur.len() > 0 {
        assert(st.done.push(st.cur).drop_last() =~= st.done);
        assert(ustr(Seq::<Piece>::empty()) =~= Seq::<Seq<char>>::empty());
    }
}
pub proof fn l1_add_char(cur: Seq<Piece>, c: char) ensures ustr(add_char(cur, c)) =~= ustr(cur)
{
    if cur.len() > 0 && cur.last() is S {
        let n = cur.drop_last().push(Piece::S(cur.last()->S_0.push(c)));
        assert(n.drop_last() =~= cur.drop_last());
    } else {
        assert(cur.push(Piece::S(seq![c])).drop_last() =~= cur);
    }
}
pub proof fn l1_chars(st: SF, cs: Seq<char>, ifs: Seq<char>) ensures ustr_st(sf_chars(st, cs, ifs)) =~= ustr_st(st) decreases cs.len()
{
    if cs.len() > 0 {
        l1_chars(st, cs.drop_last(), ifs);
        let m = sf_chars(st, cs.drop_last(), ifs);
        if is_ifs(ifs, cs.last()) { l1_flush(m); } else { l1_add_char(m.cur, cs.last()); }
    }
}
pub proof fn l1_piece(st: SF, p: Piece, ifs: Seq<char>) ensures ustr_st(sf_piece(st, p, ifs)) =~= ustr_st(st) + ustr(seq![p])
{
    assert(seq![p].drop_last() =~= Seq::<Piece>::empty());
    assert(ustr(Seq::<Piece>::empty()) =~= Seq::<Seq<char>>::empty());
    match p {
        Piece::U(s) => { assert(st.cur.push(Piece::U(s)).drop_last() =~= st.cur); assert(ustr(seq![p]) =~= seq![s]); }
        Piece::S(s) => { l1_chars(st, s, ifs); assert(ustr(seq![p]) =~= Seq::<Seq<char>>::empty()); }
    }
}
pub proof fn l1_ustr_push(ps: Seq<Piece>, p: Piece) ensures ustr(ps.push(p)) =~= ustr(ps) + ustr(seq![p])
{
    assert(ps.push(p).drop_last() =~= ps);
    assert(seq![p].drop_last() =~= Seq::<Piece>::empty());
    assert(ustr(Seq::<Piece>::empty()) =~= Seq::<Seq<char>>::empty());
}
pub proof fn l1_pieces(st: SF, ps: Seq<Piece>, ifs: Seq<char>) ensures ustr_st(sf_pieces(st, ps, ifs)) =~= ustr_st(st) + ustr(ps) decreases ps.len()
{
    if ps.len() > 0 {
        l1_pieces(st, ps.drop_last(), ifs);
        l1_piece(sf_pieces(st, ps.drop_last(), ifs), ps.last(), ifs);
        l1_ustr_push(ps.drop_last(), ps.last());
        assert(ps.drop_last().push(ps.last()) =~= ps);
    } else {
        assert(ustr(ps) =~= Seq::<Seq<char>>::empty());
    }
}
pub proof fn l1_fields(st: SF, fs: Seq<Seq<Piece>>, ifs: Seq<char>) ensures ustr_st(sf_fields(st, fs, ifs)) =~= ustr_st(st) + ustr_fs(fs) decreases fs.len()
{
    if fs.len() > 0 {
        l1_fields(st, fs.drop_last(), ifs);
        let m = sf_fields(st, fs.drop_last(), ifs);
        l1_pieces(m, fs.last(), ifs);
        l1_flush(sf_pieces(m, fs.last(), ifs));
    } else {
        assert(ustr_fs(fs) =~= Seq::<Seq<char>>::empty());
    }
}
// the statement C04 needs: for every IFS and every input, the Unsplittable strings of the output fields
// are exactly those of the input fields, in the same order, none cut
pub proof fn l1_main(fs: Seq<Seq<Piece>>, ifs: Seq<char>)
    ensures ustr_fs(sf_fields(sf0(), fs, ifs).done) =~= ustr_fs(fs)
{
    l1_fields(sf0(), fs, ifs);
    assert(ustr_fs(Seq::<Seq<Piece>>::empty()) =~= Seq::<Seq<char>>::empty());
    assert(ustr(Seq::<Piece>::empty()) =~= Seq::<Seq<char>>::empty());
    let r = sf_fields(sf0(), fs, ifs);
    if fs.len() > 0 { l1_flush(sf_pieces(sf_fields(sf0(), fs.drop_last(), ifs), fs.last(), ifs)); }
    assert(r.cur.len() == 0);
    assert(ustr(r.cur) =~= Seq::<Seq<char>>::empty());
}


// ---------------- property lemmas L2 (C04/C05): only IFS characters of splittable text are removed; none survives; no empty field
pub open spec fn pchars(p: Piece) -> Seq<char> { match p { Piece::U(s) => s, Piece::S(s) => s } }
pub open spec fn chars_of(ps: Seq<Piece>) -> Seq<char> decreases ps.len() { if ps.len() == 0 { Seq::empty() } else { chars_of(ps.drop_last()) + pchars(ps.last()) } }
pub open spec fn chars_fs(fs: Seq<Seq<Piece>>) -> Seq<char> decreases fs.len() { if fs.len() == 0 { Seq::empty() } else { chars_fs(fs.drop_last()) + chars_of(fs.last()) } }
pub open spec fn chars_st(st: SF) -> Seq<char> { chars_fs(st.done) + chars_of(st.cur) }
// what the input contributes: U strings whole, S strings without IFS characters
pub open spec fn keep(cs: Seq<char>, ifs: Seq<char>) -> Seq<char> decreases cs.len() {
    if cs.len() == 0 { Seq::empty() } else if is_ifs(ifs, cs.last()) { keep(cs.drop_last(), ifs) } else { keep(cs.drop_last(), ifs).push(cs.last()) }
}
pub open spec fn kept_of(ps: Seq<Piece>, ifs: Seq<char>) -> Seq<char> decreases ps.len() {
    if ps.len() == 0 { Seq::empty() } else { kept_of(ps.drop_last(), ifs) + (match ps.last() { Piece::U(s) => s, Piece::S(s) => keep(s, ifs) }) }
}
pub open spec fn kept_fs(fs: Seq<Seq<Piece>>, ifs: Seq<char>) -> Seq<char> decreases fs.len() { if fs.len() == 0 { Seq::empty() } else { kept_fs(fs.drop_last(), ifs) + kept_of(fs.last(), ifs) } }

pub proof fn l2_flush(st: SF) ensures chars_st(flush(st)) =~= chars_st(st)
{
    if st.cur.len() > 0 { assert(st.done.push(st.cur).drop_last() =~= st.done); assert(chars_of(Seq::<Piece>::empty()) =~= Seq::<char>::empty()); }
}
pub proof fn l2_add_char(cur: Seq<Piece>, c: char) ensures chars_of(add_char(cur, c)) =~= chars_of(cur).push(c)
{
    if cur.len() > 0 && cur.last() is S {
        let n = cur.drop_last().push(Piece::S(cur.last()->S_0.push(c)));
        assert(n.drop_last() =~= cur.drop_last());
    } else {
        assert(cur.push(Piece::S(seq![c])).drop_last() =~= cur);
    }
}
pub proof fn l2_chars(st: SF, cs: Seq<char>, ifs: Seq<char>) ensures chars_st(sf_chars(st, cs, ifs)) =~= chars_st(st) + keep(cs, ifs) decreases cs.len()
{
    if cs.len() > 0 {
        l2_chars(st, cs.drop_last(), ifs);
        let m = sf_chars(st, cs.drop_last(), ifs);
        let k = keep(cs.drop_last(), ifs);
        if is_ifs(ifs, cs.last()) { l2_flush(m); } else {
            l2_add_char(m.cur, cs.last());
            assert(chars_fs(m.done) + chars_of(m.cur).push(cs.last()) =~= (chars_fs(m.done) + chars_of(m.cur)).push(cs.last()));
            assert((chars_st(st) + k).push(cs.last()) =~= chars_st(st) + k.push(cs.last()));
        }
    } else {
        assert(chars_st(st) + keep(cs, ifs) =~= chars_st(st));
    }
}
pub proof fn l2_pieces(st: SF, ps: Seq<Piece>, ifs: Seq<char>) ensures chars_st(sf_pieces(st, ps, ifs)) =~= chars_st(st) + kept_of(ps, ifs) decreases ps.len()
{
    if ps.len() > 0 {
        l2_pieces(st, ps.drop_last(), ifs);
        let m = sf_pieces(st, ps.drop_last(), ifs);
        let k = kept_of(ps.drop_last(), ifs);
        match ps.last() {
            Piece::U(s) => {
                assert(m.cur.push(Piece::U(s)).drop_last() =~= m.cur);
                assert(chars_fs(m.done) + (chars_of(m.cur) + s) =~= (chars_fs(m.done) + chars_of(m.cur)) + s);
                assert((chars_st(st) + k) + s =~= chars_st(st) + (k + s));
            }
            Piece::S(s) => {
                l2_chars(m, s, ifs);
                assert((chars_st(st) + k) + keep(s, ifs) =~= chars_st(st) + (k + keep(s, ifs)));
            }
        }
    } else {
        assert(chars_st(st) + kept_of(ps, ifs) =~= chars_st(st));
    }
}
pub proof fn l2_fields(st: SF, fs: Seq<Seq<Piece>>, ifs: Seq<char>) ensures chars_st(sf_fields(st, fs, ifs)) =~= chars_st(st) + kept_fs(fs, ifs) decreases fs.len()
{
    if fs.len() > 0 {
        l2_fields(st, fs.drop_last(), ifs);
        let m = sf_fields(st, fs.drop_last(), ifs);
        l2_pieces(m, fs.last(), ifs);
        l2_flush(sf_pieces(m, fs.last(), ifs));
        let k = kept_fs(fs.drop_last(), ifs);
        assert((chars_st(st) + k) + kept_of(fs.last(), ifs) =~= chars_st(st) + (k + kept_of(fs.last(), ifs)));
    } else {
        assert(chars_st(st) + kept_fs(fs, ifs) =~= chars_st(st));
    }
}
// the characters of the output, in order, are exactly the input characters minus the IFS characters of Splittable pieces
pub proof fn l2_main(fs: Seq<Seq<Piece>>, ifs: Seq<char>)
    ensures chars_fs(sf_fields(sf0(), fs, ifs).done) =~= kept_fs(fs, ifs)
{
    l2_fields(sf0(), fs, ifs);
    assert(chars_fs(Seq::<Seq<Piece>>::empty()) =~= Seq::<char>::empty());
    assert(chars_of(Seq::<Piece>::empty()) =~= Seq::<char>::empty());
    if fs.len() > 0 { l1_flush(sf_pieces(sf_fields(sf0(), fs.drop_last(), ifs), fs.last(), ifs)); }
    assert(sf_fields(sf0(), fs, ifs).cur.len() == 0);
}

// state invariant: no produced field is empty, and no Splittable piece that the splitter wrote holds an IFS character
pub open spec fn piece_clean(p: Piece, ifs: Seq<char>) -> bool { match p { Piece::U(_) => true, Piece::S(s) => forall|i: int| 0 <= i < s.len() ==> !is_ifs(ifs, #[trigger] s[i]) } }
pub open spec fn cur_clean(ps: Seq<Piece>, ifs: Seq<char>) -> bool { forall|i: int| 0 <= i < ps.len() ==> piece_clean(#[trigger] ps[i], ifs) }
pub open spec fn st_clean(st: SF, ifs: Seq<char>) -> bool {
    &&& cur_clean(st.cur, ifs)
    &&& forall|i: int| 0 <= i < st.done.len() ==> (#[trigger] st.done[i]).len() > 0 && cur_clean(st.done[i], ifs)
}
pub proof fn l3_chars(st: SF, cs: Seq<char>, ifs: Seq<char>) requires st_clean(st, ifs) ensures st_clean(sf_chars(st, cs, ifs), ifs) decreases cs.len()
{
    if cs.len() > 0 {
        l3_chars(st, cs.drop_last(), ifs);
        let m = sf_chars(st, cs.drop_last(), ifs);
        let c = cs.last();
        if !is_ifs(ifs, c) {
            let n = add_char(m.cur, c);
            assert forall|i: int| 0 <= i < n.len() implies piece_clean(#[trigger] n[i], ifs) by {
                if m.cur.len() > 0 && m.cur.last() is S {
                    if i < n.len() - 1 { assert(n[i] == m.cur[i]); } else { let s = m.cur.last()->S_0; assert(piece_clean(m.cur[m.cur.len() - 1], ifs)); assert forall|k: int| 0 <= k < s.push(c).len() implies !is_ifs(ifs, #[trigger] s.push(c)[k]) by { if k < s.len() { assert(s.push(c)[k] == s[k]); } } }
                } else {
                    if i < n.len() - 1 { assert(n[i] == m.cur[i]); }
                }
            }
        }
    }
}

pub proof fn lemma_fsv_push(fs: Seq<WordField>, f: WordField)
    ensures fsv(fs.push(f)) =~= fsv(fs).push(fv(f)) {}
pub proof fn lemma_fv_push(f: Seq<ExpansionPiece>, p: ExpansionPiece)
    ensures f.push(p).map_values(|p: ExpansionPiece| pv(p)) =~= f.map_values(|p: ExpansionPiece| pv(p)).push(pv(p)) {}
pub proof fn lemma_map_empty()
    ensures fsv(Seq::<WordField>::empty()) =~= Seq::<Seq<Piece>>::empty(),
        Seq::<ExpansionPiece>::empty().map_values(|p: ExpansionPiece| pv(p)) =~= Seq::<Piece>::empty() {}


// WordField::len (not called by split_fields today; a stub read off its body — `fold(0, |acc, piece| acc + piece.len())` — so that a
// change that starts to use it is verified against the fold instead of stopping the run): the number of bytes of all pieces together.
pub uninterp spec fn text_bytes(s: Seq<char>) -> nat;
pub open spec fn piece_text(p: Piece) -> Seq<char> { match p { Piece::U(s) => s, Piece::S(s) => s } }
pub open spec fn field_bytes(f: Seq<Piece>) -> nat decreases f.len() { if f.len() == 0 { 0 } else { field_bytes(f.drop_last()) + text_bytes(piece_text(f.last())) } }
pub broadcast axiom fn axiom_text_bytes(s: Seq<char>)
    ensures (#[trigger] text_bytes(s) == 0) == (s.len() == 0);
impl WordField {
    #[verifier::external_body]
    pub fn len(&self) -> (r: usize) ensures r as nat == field_bytes(fv(*self)) { unimplemented!() }
}
