// ---- spec for brush-core/src/results.rs (POSIX XCU 2.14 break/continue: "exit from the n-th enclosing loop";
//      2.8.2: exit status is an 8-bit value that `$?` reports unchanged)
pub open spec fn dec_spec(c: ExecutionControlFlow) -> ExecutionControlFlow {
    match c {
        ExecutionControlFlow::BreakLoop { levels } => if levels == 0 { ExecutionControlFlow::Normal } else { ExecutionControlFlow::BreakLoop { levels: (levels - 1) as usize } },
        ExecutionControlFlow::ContinueLoop { levels } => if levels == 0 { ExecutionControlFlow::Normal } else { ExecutionControlFlow::ContinueLoop { levels: (levels - 1) as usize } },
        x => x,
    }
}
pub open spec fn code_of(c: u8) -> ExecutionExitCode {
    if c == 0 { ExecutionExitCode::Success } else if c == 1 { ExecutionExitCode::GeneralError } else if c == 2 { ExecutionExitCode::InvalidUsage }
    else if c == 99 { ExecutionExitCode::Unimplemented } else if c == 126 { ExecutionExitCode::CannotExecute } else if c == 127 { ExecutionExitCode::NotFound }
    else if c == 130 { ExecutionExitCode::Interrupted } else if c == 141 { ExecutionExitCode::BrokenPipe } else { ExecutionExitCode::Custom(c) }
}
pub open spec fn u8_of(e: ExecutionExitCode) -> u8 {
    match e {
        ExecutionExitCode::Success => 0, ExecutionExitCode::GeneralError => 1, ExecutionExitCode::InvalidUsage => 2,
        ExecutionExitCode::Unimplemented => 99, ExecutionExitCode::CannotExecute => 126, ExecutionExitCode::NotFound => 127,
        ExecutionExitCode::Interrupted => 130, ExecutionExitCode::BrokenPipe => 141, ExecutionExitCode::Custom(c) => c,
    }
}
// vstd attaches `ensures r == T::from_spec(x)` to every `From::from` call when obeys_from_spec() holds; these
// three blocks say *what the property demands* of the three conversions; the real impl bodies are checked against them.
impl FromSpecImpl<u8> for ExecutionExitCode { open spec fn obeys_from_spec() -> bool { true } open spec fn from_spec(c: u8) -> Self { code_of(c) } }
impl FromSpecImpl<&ExecutionExitCode> for u8 { open spec fn obeys_from_spec() -> bool { true } open spec fn from_spec(e: &ExecutionExitCode) -> Self { u8_of(*e) } }
impl FromSpecImpl<ExecutionExitCode> for u8 { open spec fn obeys_from_spec() -> bool { true } open spec fn from_spec(e: ExecutionExitCode) -> Self { u8_of(e) } }
impl FromSpecImpl<ExecutionExitCode> for ExecutionResult {
    open spec fn obeys_from_spec() -> bool { true }
    open spec fn from_spec(e: ExecutionExitCode) -> Self { ExecutionResult { next_control_flow: ExecutionControlFlow::Normal, exit_code: e } }
}
// derived `Default` impls carry no Verus spec; what `#[default]` says is assumed (listed in the ledger)
pub assume_specification [<ExecutionControlFlow as Default>::default] () -> (r: ExecutionControlFlow)
    ensures r is Normal;
pub assume_specification [<ExecutionExitCode as Default>::default] () -> (r: ExecutionExitCode)
    ensures r is Success;
pub assume_specification [<ExecutionResult as Default>::default] () -> (r: ExecutionResult)
    ensures r.next_control_flow is Normal, r.exit_code is Success;
