// ---- C02: `$?` survives the enum: u8 -> ExecutionExitCode -> u8 is the identity, and success <=> 0
pub proof fn lemma_exit_code_round_trip(c: u8)
    ensures
        u8_of(code_of(c)) == c,
        (code_of(c) is Success) <==> c == 0,
{
}
// the abstract code of a Custom(k) with k one of the named values differs from the named variant as an enum value
// but reports the same `$?`; what matters to the property is the u8.
pub proof fn lemma_u8_of_injective_on_canonical(a: u8, b: u8)
    ensures code_of(a) == code_of(b) ==> a == b,
{
}
// C02: decrementing never creates a non-loop flow out of a loop flow other than Normal, and never touches return/exit
pub proof fn lemma_dec_spec_shape(c: ExecutionControlFlow)
    ensures
        (c is ReturnFromFunctionOrScript || c is ExitShell || c is Normal) ==> dec_spec(c) == c,
        c is BreakLoop ==> (dec_spec(c) is Normal <==> c->BreakLoop_levels == 0),
        c is ContinueLoop ==> (dec_spec(c) is Normal <==> c->ContinueLoop_levels == 0),
        c is BreakLoop && c->BreakLoop_levels > 0 ==> dec_spec(c) == (ExecutionControlFlow::BreakLoop { levels: (c->BreakLoop_levels - 1) as usize }),
        c is ContinueLoop && c->ContinueLoop_levels > 0 ==> dec_spec(c) == (ExecutionControlFlow::ContinueLoop { levels: (c->ContinueLoop_levels - 1) as usize }),
{
}
