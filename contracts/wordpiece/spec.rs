// ---- C05/C04: which results of a word piece may be field-split and globbed afterwards.
//  POSIX XCU 2.6: field splitting (2.6.5) and pathname expansion (2.6.6) apply to the results of parameter expansion, command
//  substitution and arithmetic expansion that did not occur in double quotes, and to unquoted literal text (for globbing);
//  quoted text (2.2) and the result of tilde expansion (2.6.1: "the pathname resulting from tilde expansion shall be treated as
//  if quoted to prevent it being altered by field splitting and pathname expansion") are never split or globbed.
//  brush marks this per piece: ExpansionPiece::Splittable / Unsplittable.
pub mod error {
    use vstd::prelude::*;
    #[verifier::external_body]
    pub struct Error { _p: u8 }
}
pub mod brush_parser { pub mod word {
    use vstd::prelude::*;
    #[verifier::external_body]
    pub struct TildeExpr { _p: u8 }
} }
pub trait VxOwned { spec fn vx_view(&self) -> Seq<char>; fn vx_owned(self) -> (r: String) ensures r@ == self.vx_view(); }
impl VxOwned for String { open spec fn vx_view(&self) -> Seq<char> { self@ } #[verifier::external_body] fn vx_owned(self) -> (r: String) { self } }
pub struct WordExpander { pub u: u8 }
pub uninterp spec fn tilde_spec(e: brush_parser::word::TildeExpr) -> Result<Seq<char>, error::Error>;
impl WordExpander {
    // expansion.rs expand_tilde_expression (home directory / $PWD / $OLDPWD / user lookups): NOT verified, result uninterpreted
    #[verifier::external_body]
    pub fn expand_tilde_expression(&self, tilde_expr: &brush_parser::word::TildeExpr) -> (r: Result<String, error::Error>)
        ensures match tilde_spec(*tilde_expr) { Ok(v) => r is Ok && r->Ok_0@ == v, Err(e) => r == Err::<String, error::Error>(e) }
    { unimplemented!() }
}
impl vstd::std_specs::convert::FromSpecImpl<ExpansionPiece> for WordField { open spec fn obeys_from_spec() -> bool { false } open spec fn from_spec(p: ExpansionPiece) -> Self { arbitrary() } }
impl vstd::std_specs::convert::FromSpecImpl<String> for WordField { open spec fn obeys_from_spec() -> bool { false } open spec fn from_spec(p: String) -> Self { arbitrary() } }
impl vstd::std_specs::convert::FromSpecImpl<ExpansionPiece> for Expansion { open spec fn obeys_from_spec() -> bool { false } open spec fn from_spec(p: ExpansionPiece) -> Self { arbitrary() } }
impl vstd::std_specs::convert::FromSpecImpl<String> for Expansion { open spec fn obeys_from_spec() -> bool { false } open spec fn from_spec(p: String) -> Self { arbitrary() } }
pub open spec fn is_single(e: Expansion, p: ExpansionPiece) -> bool { e.fields@.len() == 1 && e.fields@[0].0@ == seq![p] }
pub open spec fn single_unsplittable(e: Expansion, text: Seq<char>) -> bool {
    e.fields@.len() == 1 && e.fields@[0].0@.len() == 1 && e.fields@[0].0@[0] is Unsplittable && e.fields@[0].0@[0]->Unsplittable_0@ == text
}
pub open spec fn single_splittable(e: Expansion, text: Seq<char>) -> bool {
    e.fields@.len() == 1 && e.fields@[0].0@.len() == 1 && e.fields@[0].0@[0] is Splittable && e.fields@[0].0@[0]->Splittable_0@ == text
}
// <String as ToString>::to_string() returns an equal string (std documented behaviour of Display for String).  ASSUMED.
pub broadcast axiom fn axiom_string_to_string(s: String, r: String)
    requires #[trigger] to_string_from_display_ensures::<String>(&s, r),
    ensures r@ == s@;
