// ---- C05/C04: which results of a word piece may be field-split and globbed afterwards.
//  POSIX XCU 2.6: field splitting (2.6.5) and pathname expansion (2.6.6) apply to the results of parameter expansion, command
//  substitution and arithmetic expansion that did not occur in double quotes, and to unquoted literal text (for globbing);
//  quoted text (2.2) and the result of tilde expansion (2.6.1: "the pathname resulting from tilde expansion shall be treated as
//  if quoted to prevent it being altered by field splitting and pathname expansion") are never split or globbed.
//  brush marks this per piece: ExpansionPiece::Splittable / Unsplittable.
pub mod error {
    use vstd::prelude::*;
    #[verifier::external_body]
    pub struct Error { _p: u8 }
}
// the word parser's types: WordPiece / WordPieceWithSource are the real definitions (extracted by the unit above this prelude),
// what they refer to is opaque
#[verifier::external_body] pub struct TildeExpr { _p: u8 }
#[verifier::external_body] pub struct ParameterExpr { _p: u8 }
pub mod ast { use vstd::prelude::*; #[verifier::external_body] pub struct UnexpandedArithmeticExpr { _p: u8 } }
pub mod brush_parser { pub mod word { pub use super::super::{TildeExpr, ParameterExpr, WordPiece, WordPieceWithSource}; } }
pub trait VxOwned { spec fn vx_view(&self) -> Seq<char>; fn vx_owned(self) -> (r: String) ensures r@ == self.vx_view(); }
impl VxOwned for String { open spec fn vx_view(&self) -> Seq<char> { self@ } #[verifier::external_body] fn vx_owned(self) -> (r: String) { self } }
pub struct WordExpander { pub disable_command_substitutions: bool, pub in_double_quotes: bool, pub u: u8,
    pub calls: Ghost<Seq<(Seq<char>, bool)>> }   // projection (fields checked) + ghost log of basic_expand calls: (text, quote state at the call)
// ---- the word of ${p:-word} and friends (expand_parameter_word).  bash manual, Shell Parameter Expansion + POSIX XCU 2.6.2: inside
//  double quotes the word is read with double-quote rules (quotes and backslashes literal apart from the escapes valid there), except
//  that a word that is itself wholly double-quoted is read, without those quotes, with the ordinary rules; afterwards the rest of the
//  enclosing double-quoted string is STILL inside double quotes.  Outside double quotes the word is read with the ordinary rules.
pub uninterp spec fn basic_expand_result(text: Seq<char>, in_double_quotes: bool, nth: nat) -> Result<Expansion, error::Error>;
impl WordExpander {
    // expansion.rs basic_expand: ASSUMED to leave the quote state as it found it (its double-quoted arm is the U23 clause
    // quote-state-restored-on-every-exit-of-a-double-quoted-sequence; a parameter word is the clause below); result uninterpreted
    #[verifier::external_body]
    pub fn basic_expand(&mut self, word: &str) -> (r: Result<Expansion, error::Error>)
        ensures final(self).in_double_quotes == old(self).in_double_quotes,
            final(self).disable_command_substitutions == old(self).disable_command_substitutions,
            final(self).calls@ == old(self).calls@.push((word@, old(self).in_double_quotes)),
            r == basic_expand_result(word@, old(self).in_double_quotes, old(self).calls@.len()),
    { unimplemented!() }
}
pub open spec fn dq_wrapped(w: Seq<char>) -> bool { w.len() >= 2 && w[0] == '"' && w.last() == '"' }
pub open spec fn parameter_word_call(w: Seq<char>, in_dq: bool) -> (Seq<char>, bool) {
    if !in_dq { (w, false) } else if dq_wrapped(w) { (w.subrange(1, w.len() - 1), false) } else { (seq!['"'] + w + seq!['"'], true) }
}
// R14 stubs: str::strip_prefix(char) / strip_suffix(char), format!("\"{word}\"")
#[verifier::external_body]
pub fn str_strip_prefix_char<'a>(s: &'a str, c: char) -> (r: Option<&'a str>)
    ensures r is Some <==> (s@.len() > 0 && s@[0] == c), r is Some ==> r->Some_0@ == s@.subrange(1, s@.len() as int)
{ unimplemented!() }
#[verifier::external_body]
pub fn str_strip_suffix_char<'a>(s: &'a str, c: char) -> (r: Option<&'a str>)
    ensures r is Some <==> (s@.len() > 0 && s@.last() == c), r is Some ==> r->Some_0@ == s@.subrange(0, s@.len() - 1)
{ unimplemented!() }
#[verifier::external_body]
pub fn vx_wrap_in_double_quotes(word: &str) -> (r: String) ensures r@ == seq!['"'] + word@ + seq!['"'] { unimplemented!() }
pub uninterp spec fn tilde_spec(e: brush_parser::word::TildeExpr) -> Result<Seq<char>, error::Error>;
impl WordExpander {
    // expansion.rs expand_tilde_expression (home directory / $PWD / $OLDPWD / user lookups): NOT verified, result uninterpreted
    #[verifier::external_body]
    pub fn expand_tilde_expression(&self, tilde_expr: &brush_parser::word::TildeExpr) -> (r: Result<String, error::Error>)
        ensures match tilde_spec(*tilde_expr) { Ok(v) => r is Ok && r->Ok_0@ == v, Err(e) => r == Err::<String, error::Error>(e) }
    { unimplemented!() }
}
impl vstd::std_specs::convert::FromSpecImpl<ExpansionPiece> for WordField { open spec fn obeys_from_spec() -> bool { false } open spec fn from_spec(p: ExpansionPiece) -> Self { arbitrary() } }
impl vstd::std_specs::convert::FromSpecImpl<String> for WordField { open spec fn obeys_from_spec() -> bool { false } open spec fn from_spec(p: String) -> Self { arbitrary() } }
impl vstd::std_specs::convert::FromSpecImpl<ExpansionPiece> for Expansion { open spec fn obeys_from_spec() -> bool { false } open spec fn from_spec(p: ExpansionPiece) -> Self { arbitrary() } }
impl vstd::std_specs::convert::FromSpecImpl<String> for Expansion { open spec fn obeys_from_spec() -> bool { false } open spec fn from_spec(p: String) -> Self { arbitrary() } }
pub open spec fn is_single(e: Expansion, p: ExpansionPiece) -> bool { e.fields@.len() == 1 && e.fields@[0].0@ == seq![p] }
pub open spec fn single_unsplittable(e: Expansion, text: Seq<char>) -> bool {
    e.fields@.len() == 1 && e.fields@[0].0@.len() == 1 && e.fields@[0].0@[0] is Unsplittable && e.fields@[0].0@[0]->Unsplittable_0@ == text
}
pub open spec fn single_splittable(e: Expansion, text: Seq<char>) -> bool {
    e.fields@.len() == 1 && e.fields@[0].0@.len() == 1 && e.fields@[0].0@[0] is Splittable && e.fields@[0].0@[0]->Splittable_0@ == text
}
// <String as ToString>::to_string() returns an equal string (std documented behaviour of Display for String).  ASSUMED.
pub broadcast axiom fn axiom_string_to_string(s: String, r: String)
    requires #[trigger] to_string_from_display_ensures::<String>(&s, r),
    ensures r@ == s@;
// ---- command substitution (POSIX XCU 2.6.3): "... removing sequences of one or more <newline> characters at the end of the
//  substitution"; nothing else is removed (bash additionally drops NUL bytes with a warning).
pub open spec fn strip_trailing(s: Seq<char>, set: Seq<char>) -> Seq<char> decreases s.len() {
    if s.len() > 0 && set.contains(s.last()) { strip_trailing(s.drop_last(), set) } else { s }
}
pub open spec fn without_nul(s: Seq<char>) -> Seq<char> decreases s.len() {
    if s.len() == 0 { Seq::empty() } else { let r = without_nul(s.drop_last()); if s.last() == '\0' { r } else { r.push(s.last()) } }
}
pub proof fn lemma_without_nul_id(s: Seq<char>)
    requires !s.contains('\0'),
    ensures without_nul(s) =~= s
    decreases s.len()
{
    if s.len() > 0 {
        assert forall|i: int| 0 <= i < s.drop_last().len() implies s.drop_last()[i] != '\0' by { assert(s.contains(s[i])); }
        assert(!s.drop_last().contains('\0'));
        lemma_without_nul_id(s.drop_last());
        assert(s.contains(s.last()));
        assert(s.drop_last().push(s.last()) =~= s);
    }
}
pub uninterp spec fn subst_output_spec(command: Seq<char>) -> Result<Seq<char>, error::Error>;
// R14 stubs
#[verifier::external_body]
pub fn invoke_command_in_subshell_and_get_output(self_: &mut WordExpander, s: String) -> (r: Result<String, error::Error>)
    ensures match subst_output_spec(s@) { Ok(v) => r is Ok && r->Ok_0@ == v, Err(e) => r == Err::<String, error::Error>(e) }
{ unimplemented!() }
#[verifier::external_body]
pub fn string_contains_char(s: &String, c: char) -> (r: bool) ensures r == s@.contains(c) { unimplemented!() }
#[verifier::external_body]
pub fn string_retain_not_nul(s: &mut String) ensures final(s)@ == without_nul(old(s)@) { unimplemented!() }
#[verifier::external_body]
pub fn warn_ignored_nul(self_: &mut WordExpander) -> (r: Result<(), error::Error>) { unimplemented!() }
// str::trim_end_matches(pattern).len(): the byte length of the text without its trailing run of characters from the set
#[verifier::external_body]
pub fn trimmed_len_of(s: &String, set: &[char]) -> (r: usize)
    ensures boundary(s@, r as int), exists|n: int| boundary_at(s@, r as int, n) && s@.take(n) == strip_trailing(s@, set@)
{ unimplemented!() }
// str::trim_end().len() / trim_end_matches(pred).len(): the same with a predicate on characters (std: trailing `char::is_whitespace`)
pub uninterp spec fn std_whitespace(c: char) -> bool;
pub open spec fn strip_trailing_p(s: Seq<char>, p: spec_fn(char) -> bool) -> Seq<char> decreases s.len() {
    if s.len() > 0 && p(s.last()) { strip_trailing_p(s.drop_last(), p) } else { s }
}
#[verifier::external_body]
pub fn trimmed_len_ws(s: &String) -> (r: usize)
    ensures boundary(s@, r as int), exists|n: int| boundary_at(s@, r as int, n) && s@.take(n) == strip_trailing_p(s@, |c: char| std_whitespace(c))
{ unimplemented!() }
// String::truncate(n): panics unless n is a char boundary (or beyond the end: then a no-op)
#[verifier::external_body]
pub fn string_truncate(s: &mut String, n: usize)
    requires boundary(old(s)@, n as int),
    ensures exists|k: int| boundary_at(old(s)@, n as int, k) && final(s)@ == old(s)@.take(k)
{ unimplemented!() }

// ---- double-quoted sequences.  The pieces inside "..." are expanded with WordExpander::in_double_quotes set (parameter words rely
//  on it: `${p:+"$x"}` strips its own quotes when an enclosing double-quote pass will make the result unsplittable), and the flag
//  must be back to what it was on EVERY exit of the arm, or the rest of the word is expanded as if it were inside quotes.
pub open spec fn all_unsplittable(fs: Seq<WordField>) -> bool {
    forall|i: int, j: int| 0 <= i < fs.len() && 0 <= j < fs[i].0@.len() ==> (#[trigger] fs[i].0@[j]) is Unsplittable
}
impl WordExpander {
    // process_double_quoted_pieces: NOT verified; ASSUMED to be called with the flag set, to leave it as found and to yield unsplittable pieces only
    #[verifier::external_body]
    pub fn process_double_quoted_pieces(&mut self, pieces: Vec<WordPieceWithSource>) -> (r: Result<Vec<WordField>, error::Error>)
        requires old(self).in_double_quotes,
        ensures final(self).in_double_quotes == old(self).in_double_quotes, final(self).disable_command_substitutions == old(self).disable_command_substitutions,
                r is Ok ==> all_unsplittable(r->Ok_0@),
    { unimplemented!() }
}
