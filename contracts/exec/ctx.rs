// ---- context stubs shared by the executor units.  `Node` (the identity of an abstract child) is defined by the unit.
pub mod error {
    use vstd::prelude::*;
    #[verifier::external_body]
    pub struct Error { _p: u8 }
}

// One event per execution of an abstract child: which child, the errexit-suppression flag it was given, whether it
// returned Ok, and (if Ok) the control flow and exit code it produced.  `val` is the value of an arithmetic child.
// `aux` is a unit-defined ghost payload (e.g. the string a word expanded to).
// `conv` is what `Error::into_result` makes of a failed child's error (only constrained where an executor uses it).
pub struct Ev { pub node: Node, pub suppress: bool, pub ok: bool, pub cf: ExecutionControlFlow, pub code: ExecutionExitCode, pub val: i64, pub conv: (ExecutionControlFlow, ExecutionExitCode), pub aux: Aux }

#[verifier::external_body]
pub struct ShellOther { _p: u8 }
#[verifier::external_body]
pub struct Shell { _p: u8 }
impl Shell {
    pub uninterp spec fn other(&self) -> ShellOther;   // everything else (options, traps, ...): untouched by set_last_exit_status
    pub uninterp spec fn trace(&self) -> Seq<Ev>;     // ghost: child executions so far
    pub uninterp spec fn status(&self) -> u8;          // $?
    pub uninterp spec fn xtrace(&self) -> bool;        // set -x
    #[verifier::external_body]
    pub fn set_last_exit_status(&mut self, status: u8)
        ensures final(self).trace() == old(self).trace(), final(self).status() == status, final(self).xtrace() == old(self).xtrace(), final(self).other() == old(self).other()
    { unimplemented!() }
}
#[verifier::external_body]
pub struct ParamsRest { _p: u8 }
// projection of interp.rs `ExecutionParameters` (field presence checked against the source on every run)
pub struct ExecutionParameters { pub rest: ParamsRest, pub suppress_errexit: bool }
impl Clone for ExecutionParameters {
    #[verifier::external_body]
    fn clone(&self) -> (r: Self) ensures r == *self { unimplemented!() }
}

pub open spec fn new_events(old_t: Seq<Ev>, new_t: Seq<Ev>) -> Seq<Ev> { new_t.skip(old_t.len() as int) }

pub broadcast proof fn lemma_new_events_push(old_t: Seq<Ev>, t: Seq<Ev>, e: Ev)
    requires old_t.is_prefix_of(t),
    ensures #[trigger] new_events(old_t, t.push(e)) == new_events(old_t, t).push(e), old_t.is_prefix_of(t.push(e)),
{
    assert(new_events(old_t, t.push(e)) =~= new_events(old_t, t).push(e));
}
pub proof fn lemma_new_events_empty(t: Seq<Ev>)
    ensures new_events(t, t) == Seq::<Ev>::empty(), t.is_prefix_of(t),
{
    assert(new_events(t, t) =~= Seq::<Ev>::empty());
}

// what every abstract child promises: exactly one event appended, describing this call
pub open spec fn child_event(old_t: Seq<Ev>, new_t: Seq<Ev>, node: Node, suppress: bool, r: Result<ExecutionResult, error::Error>) -> bool {
    &&& new_t == old_t.push(new_t.last())
    &&& new_t.last().node == node
    &&& new_t.last().suppress == suppress
    &&& new_t.last().ok == r.is_ok()
    &&& (r.is_ok() ==> new_t.last().cf == r->Ok_0.next_control_flow && new_t.last().code == r->Ok_0.exit_code)
}
