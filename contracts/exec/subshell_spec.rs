// ---- C02 "subshells convert any control flow to a plain status" (POSIX XCU 2.9.4 Grouping Commands: "( compound-list )
//      Execute compound-list in a subshell environment ... Variable assignments and built-in commands that affect the
//      environment shall not remain in effect after the list finishes"; exit status: that of the list).
//  So: whatever the list asks for (break, continue, return, exit) stays inside; the parent sees Normal flow and the list's
//  exit code; the parent shell value is only cloned, never written.
pub uninterp spec fn clone_spec(sh: Shell) -> Shell;
impl Clone for Shell {
    #[verifier::external_body]
    fn clone(&self) -> (r: Self) ensures r == clone_spec(*self) { unimplemented!() }
}
// the list, run in a given shell, yields a result determined by (list, shell before, params) — uninterpreted
pub uninterp spec fn exec_spec(l: ast::CompoundList, sh: Shell, suppress: bool) -> Result<(ExecutionControlFlow, ExecutionExitCode), (ExecutionControlFlow, ExecutionExitCode)>;
impl ast::CompoundList {
    #[verifier::external_body]
    pub fn execute(&self, shell: &mut Shell, params: &ExecutionParameters) -> (r: Result<ExecutionResult, error::Error>)
        ensures
            match exec_spec(*self, *old(shell), params.suppress_errexit) {
                Ok((cf, code)) => r is Ok && r->Ok_0.next_control_flow == cf && r->Ok_0.exit_code == code,
                Err(conv) => r is Err && into_result_spec(r->Err_0, *final(shell)) == conv,
            }
    { unimplemented!() }
}
pub uninterp spec fn into_result_spec(e: error::Error, sh: Shell) -> (ExecutionControlFlow, ExecutionExitCode);
impl error::Error {
    #[verifier::external_body]
    pub fn into_result(self, shell: &Shell) -> (r: ExecutionResult)
        ensures (r.next_control_flow, r.exit_code) == into_result_spec(self, *shell)
    { unimplemented!() }
}
pub open spec fn list_code(l: ast::CompoundList, sh: Shell, suppress: bool) -> ExecutionExitCode {
    match exec_spec(l, sh, suppress) { Ok((_, code)) => code, Err((_, code)) => code }
}
