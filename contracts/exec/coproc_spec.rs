// ---- C17: the body of the task a coprocess runs in (interp.rs, CoprocessCommand::execute).  Same requirement as for a
//  background list: the task hands `wait` a status, never an Err (see bgtask_spec.rs).
#[verifier::external_body] pub struct ChildProcess { _p: u8 }
#[verifier::external_body] pub struct ExecutionSpawnResult { _p: u8 }
pub enum ExecutionWaitResult { Completed(ExecutionResult), Stopped(ChildProcess) }
pub mod commands {
    use vstd::prelude::*;
    use super::*;
    pub enum ShellForCommand<'a> { ParentShell(&'a mut Shell), OwnedShell { target: Box<Shell>, parent: &'a mut Shell } }
}
pub struct PipelineExecutionContext<'a> { pub shell: commands::ShellForCommand<'a>, pub process_group_id: Option<i32> }
#[verifier::external_body] pub struct CoprocBody { _p: u8 }
pub uninterp spec fn coproc_launch_spec(b: CoprocBody, sh: Shell) -> Result<ExecutionSpawnResult, error::Error>;
pub uninterp spec fn coproc_wait_spec(s: ExecutionSpawnResult) -> Result<ExecutionWaitResult, error::Error>;
impl CoprocBody {
    #[verifier::external_body]
    pub fn execute_in_pipeline(&self, context: PipelineExecutionContext<'_>, params: ExecutionParameters) -> (r: Result<ExecutionSpawnResult, error::Error>)
        requires context.shell is ParentShell,
        ensures r == coproc_launch_spec(*self, *old(context.shell->ParentShell_0)),
    { unimplemented!() }
}
impl ExecutionSpawnResult {
    #[verifier::external_body]
    pub fn wait(self) -> (r: Result<ExecutionWaitResult, error::Error>) ensures r == coproc_wait_spec(self) { unimplemented!() }
}
