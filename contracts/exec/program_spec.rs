// ---- a program is its complete commands in order (POSIX XCU 2.9.3 sequential lists; 2.8.1 consequences of shell errors):
//  * `$?` is updated after each complete command;
//  * an error from a command does not abort the program by itself: it is converted to a result (`Error::into_result`, whose
//    verdict — continue or exit the shell — is abstract here) and treated like any other result;
//  * a non-normal control flow (exit, return, or break/continue passing through `eval`/`source`) stops the program and is
//    handed to the caller.  What the *top-level* caller does with a stray break/continue is outside this function
//    (DESIGN.md 6: bash ignores it and goes on; brush stops — not expressible at this interface, see C02 level_note).
impl error::Error {
    #[verifier::external_body]
    pub fn into_result(self, shell: &Shell) -> (r: ExecutionResult)
        ensures (r.next_control_flow, r.exit_code) == into_result_spec(self, *shell)
    { unimplemented!() }
}
pub uninterp spec fn into_result_spec(e: error::Error, sh: Shell) -> (ExecutionControlFlow, ExecutionExitCode);

impl ast::CompoundList {
    #[verifier::external_body]
    pub fn execute(&self, shell: &mut Shell, params: &ExecutionParameters) -> (r: Result<ExecutionResult, error::Error>)
        ensures
            child_event(old(shell).trace(), final(shell).trace(), Node::Cmd(*self), params.suppress_errexit, r),
            r is Err ==> final(shell).trace().last().conv == into_result_spec(r->Err_0, *final(shell)),
    { unimplemented!() }
}

pub enum St {
    At { k: int, code: ExecutionExitCode },
    Done(ExecutionControlFlow, ExecutionExitCode),
    Bad,
}
pub open spec fn pg_step(st: St, e: Ev, p: ast::Program, outer: bool) -> St {
    match st {
        St::At { k, code } => {
            if k < 0 || k >= p.complete_commands@.len() { St::Bad }
            else if e.node != Node::Cmd(p.complete_commands@[k]) || e.suppress != outer { St::Bad }
            else {
                let (cf, c) = if e.ok { (e.cf, e.code) } else { e.conv };
                if !(cf is Normal) { St::Done(cf, c) } else { St::At { k: k + 1, code: c } }
            }
        }
        _ => St::Bad,
    }
}
pub open spec fn pg_run(evs: Seq<Ev>, p: ast::Program, outer: bool) -> St decreases evs.len() {
    if evs.len() == 0 { St::At { k: 0, code: ExecutionExitCode::Success } }
    else { pg_step(pg_run(evs.drop_last(), p, outer), evs.last(), p, outer) }
}
pub broadcast proof fn lemma_pg_run_push(s: Seq<Ev>, e: Ev, p: ast::Program, o: bool)
    ensures #[trigger] pg_run(s.push(e), p, o) == pg_step(pg_run(s, p, o), e, p, o),
{ assert(s.push(e).drop_last() =~= s); }
