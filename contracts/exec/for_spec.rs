// ---- POSIX XCU 2.9.4 "The for Loop" as a left fold over child events.
//  "First, the list of words following `in` shall be expanded to generate a list of items.  Then, the variable name shall
//   be set to each item, in turn, and the compound-list executed each time.  If no items result from the expansion, the
//   compound-list shall not be executed.  Omitting `in word...` shall be equivalent to `in "$@"`."
//  "Exit status: that of the last command that executes; if there are no items, zero."
//  break/continue/return/exit in the body behave as in every loop (2.14); the body gets the caller's errexit flag.
pub enum ShellValueLiteral { Scalar(String) }      // projection of variables.rs ShellValueLiteral (variant presence checked)
#[verifier::external_body]
pub struct ShellVariable { _p: u8 }
impl Shell {
    pub uninterp spec fn args(&self) -> Seq<String>;      // "$@"
    #[verifier::external_body]
    pub fn current_shell_args(&self) -> (r: &[String]) ensures r@ == self.args() { unimplemented!() }
}
pub mod expansion {
    use vstd::prelude::*;
    use super::*;
    #[verifier::external_body]
    pub fn full_expand_and_split_word(shell: &mut Shell, params: &ExecutionParameters, word_str: &ast::Word) -> (r: Result<Vec<String>, error::Error>)
        ensures
            final(shell).trace() == old(shell).trace().push(final(shell).trace().last()),
            final(shell).trace().last().node == Node::ExpandSplit(*word_str),
            final(shell).trace().last().ok == r.is_ok(),
            r.is_ok() ==> final(shell).trace().last().aux.strs == r->Ok_0@,
    { unimplemented!() }
}
// `shell.env_mut().update_or_add(..)` with the receiver chain flattened (rule R14): one Assign event
#[verifier::external_body]
pub fn env_mut__update_or_add<F: Fn(&mut ShellVariable) -> Result<(), error::Error>>(shell: &mut Shell, name: &String, value: ShellValueLiteral, updater: F, lookup: EnvironmentLookup, scope: EnvironmentScope) -> (r: Result<(), error::Error>)
    ensures
        final(shell).trace() == old(shell).trace().push(final(shell).trace().last()),
        final(shell).trace().last().node == Node::Assign(*name),
        final(shell).trace().last().ok == r.is_ok(),
        final(shell).trace().last().aux.s == value->Scalar_0,
        final(shell).trace().last().aux.anywhere_global == (lookup is Anywhere && scope is Global),
{ unimplemented!() }

pub enum St {
    Expand { k: int, acc: Seq<String> },
    Loop { vals: Seq<String>, i: int, assigned: bool, code: ExecutionExitCode },
    Done(ExecutionControlFlow, ExecutionExitCode),
    Err,
    Bad,
}
pub open spec fn expand_state(ws: Seq<ast::Word>, k: int, acc: Seq<String>) -> St {
    if k >= ws.len() { St::Loop { vals: acc, i: 0, assigned: false, code: ExecutionExitCode::Success } } else { St::Expand { k, acc } }
}
pub open spec fn for_step(st: St, e: Ev, c: ast::ForClauseCommand, outer: bool) -> St {
    match st {
        St::Expand { k, acc } => {
            if !(c.values is Some) || !(0 <= k < c.values->Some_0@.len()) || e.node != Node::ExpandSplit(c.values->Some_0@[k]) { St::Bad }
            else if !e.ok { St::Err }
            else { expand_state(c.values->Some_0@, k + 1, acc + e.aux.strs) }
        }
        St::Loop { vals, i, assigned, code } => {
            if !(0 <= i < vals.len()) { St::Bad }
            else if !assigned {
                // the variable is set (shell-wide, not function-local) to item i
                if e.node != Node::Assign(c.variable_name) || e.aux.s != vals[i] || !e.aux.anywhere_global { St::Bad }
                else if !e.ok { St::Err }
                else { St::Loop { vals, i, assigned: true, code } }
            } else {
                if e.node != Node::List(c.body.list) || e.suppress != outer { St::Bad }
                else if !e.ok { St::Err }
                else if e.cf is ReturnFromFunctionOrScript || e.cf is ExitShell { St::Done(e.cf, e.code) }
                else if e.cf is BreakLoop { St::Done(dec_spec(e.cf), e.code) }
                else if e.cf is ContinueLoop && !(dec_spec(e.cf) is Normal) { St::Done(dec_spec(e.cf), e.code) }
                else { St::Loop { vals, i: i + 1, assigned: false, code: e.code } }
            }
        }
        _ => St::Bad,
    }
}
pub open spec fn for_init(c: ast::ForClauseCommand, args0: Seq<String>) -> St {
    match c.values {
        Some(ws) => expand_state(ws@, 0, Seq::<String>::empty()),
        None => St::Loop { vals: args0, i: 0, assigned: false, code: ExecutionExitCode::Success },
    }
}
pub open spec fn for_run(evs: Seq<Ev>, c: ast::ForClauseCommand, outer: bool, args0: Seq<String>) -> St decreases evs.len() {
    if evs.len() == 0 { for_init(c, args0) } else { for_step(for_run(evs.drop_last(), c, outer, args0), evs.last(), c, outer) }
}
pub broadcast proof fn lemma_for_run_push(s: Seq<Ev>, e: Ev, c: ast::ForClauseCommand, o: bool, a: Seq<String>)
    ensures #[trigger] for_run(s.push(e), c, o, a) == for_step(for_run(s, c, o, a), e, c, o),
{ assert(s.push(e).drop_last() =~= s); }
pub open spec fn for_finished(st: St, r: ExecutionResult) -> bool {
    st == St::Done(r.next_control_flow, r.exit_code)
    || (st is Loop && st->i == st->vals.len() && !st->assigned && r.next_control_flow is Normal && r.exit_code == st->code)
}
