// ---- prelude (C18): the set-up of a coprocess (interp.rs, impl Execute for ast::CoprocessCommand, up to the point where the child shell
//  is cloned).  "Executing any command sequence N times ... leaves the process with the same number of open descriptors ... including
//  sequences that fail part-way": a `coproc` that is turned down (dry run, invalid name) has not put anything into the shell's table
//  of open files.
pub mod error { use vstd::prelude::*; #[verifier::external_body] pub struct Error { _p: u8 } }
pub mod ast { use vstd::prelude::*; #[verifier::external_body] pub struct CoprocessCommand { _p: u8 } }
pub struct ExecutionResult { pub ok: bool, pub goes_on: bool }
impl ExecutionResult { pub fn success() -> (r: Self) ensures !r.goes_on { Self { ok: true, goes_on: false } } }
pub enum ExecutionExitCode { GeneralError }                                   // projection (variant checked)
impl vstd::std_specs::convert::FromSpecImpl<ExecutionExitCode> for ExecutionResult {
    open spec fn obeys_from_spec() -> bool { true }
    open spec fn from_spec(c: ExecutionExitCode) -> Self { ExecutionResult { ok: false, goes_on: false } }
}
impl From<ExecutionExitCode> for ExecutionResult { fn from(c: ExecutionExitCode) -> (r: Self) ensures r == (ExecutionResult { ok: false, goes_on: false }) { ExecutionResult { ok: false, goes_on: false } } }
// the slice ends where the original goes on to clone the shell and start the coprocess
pub fn vx_goes_on_to_start_the_coprocess() -> (r: ExecutionResult) ensures r.goes_on { ExecutionResult { ok: true, goes_on: true } }
pub struct RuntimeOptions { pub do_not_execute_commands: bool }
#[verifier::external_body] pub struct OpenFile { _p: u8 }
#[verifier::external_body] pub struct PipeReader { _p: u8 }
#[verifier::external_body] pub struct PipeWriter { _p: u8 }
pub type ShellFd = i32;
pub struct OpenFiles { pub added: Ghost<Seq<ShellFd>>, pub u: u8 }            // ghost: the descriptors put into the table through add()
impl OpenFiles {
    // openfiles.rs OpenFiles::add: the file is stored under a free descriptor number, or refused
    #[verifier::external_body]
    pub fn add(&mut self, file: OpenFile) -> (r: Result<ShellFd, error::Error>)
        ensures r is Ok ==> final(self).added@ == old(self).added@.push(r->Ok_0), r is Err ==> final(self).added@ == old(self).added@
    { unimplemented!() }
}
pub struct Shell { pub options: RuntimeOptions, pub open_files: OpenFiles, pub rest: u8 }
impl Shell {
    #[verifier::external_body] pub fn clone(&self) -> (r: Self) { unimplemented!() }
    pub fn open_files_mut(&mut self) -> (r: &mut OpenFiles) ensures *r == old(self).open_files, *final(r) == final(self).open_files, final(self).options == old(self).options { &mut self.open_files }
}
#[verifier::external_body] pub struct ExecutionParameters { _p: u8 }
pub mod std_io {
    use vstd::prelude::*;
    #[verifier::external_body]
    pub fn pipe() -> (r: Result<(super::PipeReader, super::PipeWriter), super::error::Error>) { unimplemented!() }
}
#[verifier::external_body] pub fn vx_reader_into(r: PipeReader) -> OpenFile { unimplemented!() }
#[verifier::external_body] pub fn vx_writer_into(w: PipeWriter) -> OpenFile { unimplemented!() }
// R14 stubs
#[verifier::external_body] pub fn vx_coproc_name(c: &ast::CoprocessCommand) -> String { unimplemented!() }
#[verifier::external_body] pub fn valid_variable_name(s: &String) -> bool { unimplemented!() }
#[verifier::external_body] pub fn vx_report_invalid_name(shell: &Shell, params: &ExecutionParameters, name: &String) -> Result<(), error::Error> { unimplemented!() }
