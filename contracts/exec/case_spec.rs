// ---- POSIX XCU 2.9.4 "Case Conditional Construct" + bash manual (`;&`, `;;&`) as a left fold over child events.
//  * the word is expanded once; the patterns of each clause are expanded and matched in order, stopping at the first match;
//  * the matching clause's compound-list (if any) is executed with the caller's errexit flag;
//  * `;;` ends the construct; `;&` runs the next clause's list (if there is a next clause) without testing its patterns;
//    `;;&` goes on testing the following clauses;
//  * a non-normal control flow from a list ends the construct and is passed on;
//  * "the exit status shall be zero if no patterns are matched; otherwise that of the last compound-list executed"
//    (a selected clause without a list counts as a list with status zero — what bash does).
pub mod patterns {
    use vstd::prelude::*;
    #[verifier::external_body]
    pub struct Pattern { _p: u8 }
}
pub uninterp spec fn pat_with_extglob(p: patterns::Pattern, v: bool) -> patterns::Pattern;
pub uninterp spec fn pat_with_nocase(p: patterns::Pattern, v: bool) -> patterns::Pattern;
pub uninterp spec fn match_spec(p: patterns::Pattern, s: Seq<char>) -> Option<bool>;   // None: matching itself failed
impl patterns::Pattern {
    #[verifier::external_body]
    pub fn set_extended_globbing(self, v: bool) -> (r: Self) ensures r == pat_with_extglob(self, v) { unimplemented!() }
    #[verifier::external_body]
    pub fn set_case_insensitive(self, v: bool) -> (r: Self) ensures r == pat_with_nocase(self, v) { unimplemented!() }
    #[verifier::external_body]
    pub fn exactly_matches(&self, value: &str) -> (r: Result<bool, error::Error>)
        ensures match match_spec(*self, value@) { Some(b) => r == Ok::<bool, error::Error>(b), None => r is Err }
    { unimplemented!() }
}
// RuntimeOptions: the real struct of brush-core/src/options.rs is extracted by the unit
impl Shell {
    pub uninterp spec fn opts(&self) -> RuntimeOptions;
    #[verifier::external_body]
    pub fn options(&self) -> (r: &RuntimeOptions) ensures *r == self.opts() { unimplemented!() }
}
pub mod expansion {
    use vstd::prelude::*;
    use super::*;
    #[verifier::external_body]
    pub fn basic_expand_word(shell: &mut Shell, params: &ExecutionParameters, word_str: &ast::Word) -> (r: Result<String, error::Error>)
        ensures
            final(shell).trace() == old(shell).trace().push(final(shell).trace().last()),
            final(shell).trace().last().node == Node::ExpandWord(*word_str),
            final(shell).trace().last().ok == r.is_ok(),
            r.is_ok() ==> final(shell).trace().last().aux.s == r->Ok_0@,
    { unimplemented!() }
    #[verifier::external_body]
    pub fn basic_expand_pattern(shell: &mut Shell, params: &ExecutionParameters, word_str: &ast::Word) -> (r: Result<patterns::Pattern, error::Error>)
        ensures
            final(shell).trace() == old(shell).trace().push(final(shell).trace().last()),
            final(shell).trace().last().node == Node::ExpandPat(*word_str),
            final(shell).trace().last().ok == r.is_ok(),
            r.is_ok() ==> final(shell).trace().last().aux.pat == r->Ok_0,
            final(shell).trace().last().aux.eg == final(shell).opts().extended_globbing,
            final(shell).trace().last().aux.ci == final(shell).opts().case_insensitive_conditionals,
    { unimplemented!() }
}

pub enum St {
    Start,
    Test { v: Seq<char>, k: int, p: int, code: ExecutionExitCode },   // about to test pattern p of clause k
    Run { v: Seq<char>, k: int, code: ExecutionExitCode },            // clause k selected and it has a list: it must run next
    Done(ExecutionControlFlow, ExecutionExitCode),
    Err,
    Bad,
}
pub open spec fn n_cases(c: ast::CaseClauseCommand) -> int { c.cases@.len() as int }
// clause k has just completed with (cf, code)
pub open spec fn after_clause(c: ast::CaseClauseCommand, v: Seq<char>, k: int, cf: ExecutionControlFlow, code: ExecutionExitCode) -> St
    decreases n_cases(c) - k, 0int
{
    if k < 0 || k >= n_cases(c) { St::Bad }
    else if !(cf is Normal) { St::Done(cf, code) }
    else {
        match c.cases@[k].post_action {
            ast::CaseItemPostAction::ExitCase => St::Done(ExecutionControlFlow::Normal, code),
            ast::CaseItemPostAction::UnconditionallyExecuteNextCaseItem => select(c, v, k + 1, code),
            ast::CaseItemPostAction::ContinueEvaluatingCases => norm_test(c, v, k + 1, 0, code),
        }
    }
}
// clause k is selected (matched, or forced by `;&`)
pub open spec fn select(c: ast::CaseClauseCommand, v: Seq<char>, k: int, code: ExecutionExitCode) -> St
    decreases n_cases(c) - k, 1int
{
    if k < 0 { St::Bad }
    else if k >= n_cases(c) { St::Done(ExecutionControlFlow::Normal, code) }
    else if c.cases@[k].cmd is Some { St::Run { v, k, code } }
    else { after_clause(c, v, k, ExecutionControlFlow::Normal, ExecutionExitCode::Success) }
}
// next thing to test from (clause k, pattern p) on
pub open spec fn norm_test(c: ast::CaseClauseCommand, v: Seq<char>, k: int, p: int, code: ExecutionExitCode) -> St
    decreases n_cases(c) - k, c.cases@[k].patterns@.len() - p
{
    if k < 0 || p < 0 { St::Bad }
    else if k >= n_cases(c) { St::Done(ExecutionControlFlow::Normal, code) }
    else if p >= c.cases@[k].patterns@.len() { norm_test(c, v, k + 1, 0, code) }
    else { St::Test { v, k, p, code } }
}
pub open spec fn case_step(st: St, e: Ev, c: ast::CaseClauseCommand, outer: bool) -> St {
    match st {
        St::Start => {
            if e.node != Node::ExpandWord(c.value) { St::Bad }
            else if !e.ok { St::Err }
            else { norm_test(c, e.aux.s, 0, 0, ExecutionExitCode::Success) }
        }
        St::Test { v, k, p, code } => {
            if !(0 <= k < n_cases(c) && 0 <= p < c.cases@[k].patterns@.len()) || e.node != Node::ExpandPat(c.cases@[k].patterns@[p]) { St::Bad }
            else if !e.ok { St::Err }
            else {
                match match_spec(pat_with_nocase(pat_with_extglob(e.aux.pat, e.aux.eg), e.aux.ci), v) {
                    None => St::Err,
                    Some(true) => select(c, v, k, code),
                    Some(false) => norm_test(c, v, k, p + 1, code),
                }
            }
        }
        St::Run { v, k, code } => {
            if !(0 <= k < n_cases(c)) || !(c.cases@[k].cmd is Some) || e.node != Node::Cmd(c.cases@[k].cmd->Some_0) || e.suppress != outer { St::Bad }
            else if !e.ok { St::Err }
            else { after_clause(c, v, k, e.cf, e.code) }
        }
        _ => St::Bad,
    }
}
pub open spec fn case_run(evs: Seq<Ev>, c: ast::CaseClauseCommand, outer: bool) -> St decreases evs.len() {
    if evs.len() == 0 { St::Start } else { case_step(case_run(evs.drop_last(), c, outer), evs.last(), c, outer) }
}
pub broadcast proof fn lemma_case_run_push(s: Seq<Ev>, e: Ev, c: ast::CaseClauseCommand, o: bool)
    ensures #[trigger] case_run(s.push(e), c, o) == case_step(case_run(s, c, o), e, c, o),
{ assert(s.push(e).drop_last() =~= s); }
// R14: `s.contains([c1, c2, ..])` (any of the characters occurs) -> stub, result uninterpreted
pub trait VxContainsAny { fn vx_contains_any(&self, cs: &[char]) -> bool; }
impl VxContainsAny for String { #[verifier::external_body] fn vx_contains_any(&self, cs: &[char]) -> bool { unimplemented!() } }
