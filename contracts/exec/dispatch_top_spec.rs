// ---- SimpleCommand::execute (commands.rs): the dispatcher.  Same obligation as the tails of unit U4m: on every exit the
//  post_execute hook (which pops the `NAME=v cmd` scope) has run exactly once -- including the exits that find no command at all.
//  The receiver is split into the shell handle (a `&mut` parameter, so that its ghost hook counter can be read after the call)
//  and the rest of the struct (rule R5b).
#[verifier::external_body] pub struct ExecutionParameters { _p: u8 }
#[verifier::external_body] pub struct PathBuf { _p: u8 }
#[verifier::external_body] pub struct FnRegistration { _p: u8 }
pub struct BuiltinRegistration { pub disabled: bool, pub special_builtin: bool, pub rest: u8 }
pub struct RuntimeOptionsP { pub posix_mode: bool }
pub struct SimpleCommandRest {
    pub params: ExecutionParameters, pub command_name: String, pub args: Vec<CommandArg>, pub use_functions: bool,
    pub path_dirs: Option<Vec<PathBuf>>, pub process_group_id: Option<i32>, pub argv0: Option<String>, pub post_execute: Option<PostExecute>,
}
impl ShellForCommand {
    pub uninterp spec fn posix(&self) -> bool;
    #[verifier::external_body] pub fn options(&self) -> (r: RuntimeOptionsP) ensures r.posix_mode == self.posix() { unimplemented!() }
}
// R14 stubs for the lookups (registries, PATH search): arbitrary answers, no effect on the hook counter (they take `&`)
#[verifier::external_body] pub fn builtins_get_cloned(shell: &ShellForCommand, name: &String) -> (r: Option<BuiltinRegistration>) { unimplemented!() }
#[verifier::external_body] pub fn funcs_get_cloned(shell: &ShellForCommand, name: &str) -> (r: Option<FnRegistration>) { unimplemented!() }
#[verifier::external_body] pub fn contains_path_separator(name: &String) -> bool { unimplemented!() }
#[verifier::external_body] pub fn search_path_dirs_first(dirs: &Vec<PathBuf>, name: &str) -> Option<PathBuf> { unimplemented!() }
#[verifier::external_body] pub fn find_first_executable_in_path_using_cache(shell: &mut ShellForCommand, name: &String) -> (r: Option<PathBuf>)
    ensures final(shell).hooks() == old(shell).hooks(), final(shell).posix() == old(shell).posix() { unimplemented!() }
#[verifier::external_body] pub fn take_last_arg(args: &Vec<CommandArg>) -> Option<String> { unimplemented!() }
#[verifier::external_body] pub fn pathbuf_from(s: String) -> PathBuf { unimplemented!() }
#[verifier::external_body] pub fn error_command_not_found(name: String) -> error::Error { unimplemented!() }
// the three dispatch targets: each owns the command from here on and has the same obligation (U4m proves it for the builtin-in-
// parent-shell and function paths; execute_via_external is NOT verified)
#[verifier::external_body]
pub fn execute_via_builtin(self_: SimpleCommandRest, shell: &mut ShellForCommand, builtin: BuiltinRegistration) -> (r: Result<ExecutionSpawnResult, error::Error>)
    ensures hook_once(*old(shell), *final(shell), self_.post_execute) { unimplemented!() }
#[verifier::external_body]
pub fn execute_via_function(self_: SimpleCommandRest, shell: &mut ShellForCommand, f: FnRegistration) -> (r: Result<ExecutionSpawnResult, error::Error>)
    ensures hook_once(*old(shell), *final(shell), self_.post_execute) { unimplemented!() }
#[verifier::external_body]
pub fn execute_via_external(self_: SimpleCommandRest, shell: &mut ShellForCommand, path: &PathBuf) -> (r: Result<ExecutionSpawnResult, error::Error>)
    ensures hook_once(*old(shell), *final(shell), self_.post_execute) { unimplemented!() }
impl Clone for PathBuf { #[verifier::external_body] fn clone(&self) -> (r: Self) { unimplemented!() } }
// Option::is_some_and(o, f): false for None, f(x) for Some(x) (std documented behaviour).  ASSUMED.
pub assume_specification<T, F: FnOnce(T) -> bool> [Option::<T>::is_some_and] (o: Option<T>, f: F) -> (r: bool)
    requires o is Some ==> f.requires((o->0,)),
    ensures o is None ==> !r, o is Some ==> f.ensures((o->0,), r);
