// ---- C02 "function return is consumed at the call boundary"; C18 "every push has its pop" — the tail of
//      commands.rs invoke_shell_function (slice, rule R6): enter_function .. body .. leave_function .. control-flow handling.
//  POSIX XCU 2.9.5: "the exit status of a function invocation is that of the last command executed by the function";
//  2.14 return: "cause the shell to stop executing the current function"; exit passes through the boundary.
pub mod functions {
    use vstd::prelude::*;
    use super::*;
    #[verifier::external_body]
    pub struct Registration { _p: u8 }
    impl Registration {
        pub uninterp spec fn def(&self) -> ast::FunctionDefinition;
        #[verifier::external_body]
        pub fn definition(&self) -> (r: &ast::FunctionDefinition) ensures *r == self.def() { unimplemented!() }
    }
}
#[verifier::external_body]
pub struct CommandArg { _p: u8 }
pub mod interp {
    use vstd::prelude::*;
    use super::*;
    // applying one definition-time redirection: touches the parameters, never the two stacks or the event log; may fail
    #[verifier::external_body]
    pub fn setup_redirect(shell: &mut Shell, params: &mut ExecutionParameters, redirect: &ast::IoRedirect) -> (r: Result<(), error::Error>)
        ensures final(shell).trace() == old(shell).trace(), final(shell).frames() == old(shell).frames(), final(shell).scopes() == old(shell).scopes(),
            final(shell).leave_errs() == old(shell).leave_errs(), final(params).suppress_errexit == old(params).suppress_errexit,
    { unimplemented!() }
}
// rule R15: the positional-argument iterator (`args.iter().map(|a| a.to_string())`) is a value no contract mentions
#[verifier::external_body]
pub fn vx_any<T>() -> T { unimplemented!() }
#[verifier::external_body]
pub struct PosArgs { _p: u8 }
#[verifier::external_body]
pub struct CtxRest { _p: u8 }
// projection of commands.rs ExecutionContext
pub struct ExecutionContext<'a> { pub shell: &'a mut Shell, pub command_name: String, pub params: ExecutionParameters, pub rest: CtxRest }
pub enum ExecutionSpawnResult { Completed(ExecutionResult) }   // projection of results.rs ExecutionSpawnResult (variant checked)
impl vstd::std_specs::convert::FromSpecImpl<ExecutionResult> for ExecutionSpawnResult {
    open spec fn obeys_from_spec() -> bool { true }
    open spec fn from_spec(r: ExecutionResult) -> Self { ExecutionSpawnResult::Completed(r) }
}
impl error::Error { pub uninterp spec fn is_unimplemented(&self) -> bool; }
pub mod error_fns {
    use vstd::prelude::*;
    use super::*;
    #[verifier::external_body]
    pub fn unimp<T>(msg: &'static str) -> (r: Result<T, error::Error>) ensures r is Err, r->Err_0.is_unimplemented() { unimplemented!() }
}
impl Shell {
    pub uninterp spec fn frames(&self) -> nat;     // call-stack depth
    pub uninterp spec fn scopes(&self) -> nat;     // environment scope depth
    pub uninterp spec fn leave_errs(&self) -> nat; // ghost: how often leave_function has failed
    // assumed contracts of shell/callstack.rs enter_function / leave_function (proved separately in the call-stack unit)
    #[verifier::external_body]
    pub fn enter_function(&mut self, name: &str, function: &functions::Registration, args: PosArgs, params: &ExecutionParameters) -> (r: Result<(), error::Error>)
        ensures
            final(self).trace() == old(self).trace(), final(self).leave_errs() == old(self).leave_errs(),
            r is Ok ==> final(self).frames() == old(self).frames() + 1 && final(self).scopes() == old(self).scopes() + 1,
            r is Err ==> final(self).frames() == old(self).frames() && final(self).scopes() == old(self).scopes(),
    { unimplemented!() }
    #[verifier::external_body]
    pub fn leave_function(&mut self) -> (r: Result<(), error::Error>)
        ensures
            final(self).trace() == old(self).trace(),
            r is Ok ==> final(self).frames() == old(self).frames() - 1 && final(self).scopes() == old(self).scopes() - 1 && final(self).leave_errs() == old(self).leave_errs(),
            r is Err ==> final(self).leave_errs() == old(self).leave_errs() + 1,
    { unimplemented!() }
}
impl ast::CompoundCommand {
    // the function body: one event; ASSUMED frame contract: a command leaves both stacks as deep as it found them
    #[verifier::external_body]
    pub fn execute(&self, shell: &mut Shell, params: &ExecutionParameters) -> (r: Result<ExecutionResult, error::Error>)
        ensures
            child_event(old(shell).trace(), final(shell).trace(), Node::Body(*self), params.suppress_errexit, r),
            final(shell).frames() == old(shell).frames(), final(shell).scopes() == old(shell).scopes(), final(shell).leave_errs() == old(shell).leave_errs(),
    { unimplemented!() }
}
pub open spec fn call_boundary(cf: ExecutionControlFlow) -> ExecutionControlFlow {
    match cf { ExecutionControlFlow::ReturnFromFunctionOrScript => ExecutionControlFlow::Normal, x => x }
}
