// ---- C18 / C09: the per-command epilogue.  interp::execute_command pushes a `Command` scope for `NAME=v cmd` prefixes and hands the
//      pop to SimpleCommand as `post_execute`; bash: "the variable assignments ... do not remain in effect after the command
//      completes" — on success AND on failure.  So on every exit of each dispatch path that owns the shell (builtin in the
//      parent shell, function, external command) the hook must have been called exactly once.
pub mod error {
    use vstd::prelude::*;
    #[verifier::external_body]
    pub struct Error { _p: u8 }
}
#[verifier::external_body] pub struct ExecutionResult { _p: u8 }
#[verifier::external_body] pub struct SpawnOther { _p: u8 }
// projection of results.rs ExecutionSpawnResult
pub enum ExecutionSpawnResult { Completed(ExecutionResult), Other(SpawnOther) }
impl vstd::std_specs::convert::FromSpecImpl<ExecutionResult> for ExecutionSpawnResult {
    open spec fn obeys_from_spec() -> bool { true }
    open spec fn from_spec(r: ExecutionResult) -> Self { ExecutionSpawnResult::Completed(r) }
}
impl From<ExecutionResult> for ExecutionSpawnResult { fn from(result: ExecutionResult) -> Self { Self::Completed(result) } }
#[verifier::external_body] pub struct CommandArg { _p: u8 }
#[verifier::external_body] pub struct PostExecute { _p: u8 }          // the fn pointer `fn(&mut Shell) -> Result<(), Error>`
impl Clone for PostExecute { #[verifier::external_body] fn clone(&self) -> (r: Self) ensures r == *self { unimplemented!() } }
impl Copy for PostExecute {}
#[verifier::external_body] pub struct ShellForCommand { _p: u8 }       // the (possibly owned) shell of the command; DerefMut to Shell
impl ShellForCommand {
    pub uninterp spec fn hooks(&self) -> nat;                           // ghost: how often a post_execute hook has run on it
    #[verifier::external_body]
    pub fn update_last_arg_variable(&mut self, last_arg: Option<String>) ensures final(self).hooks() == old(self).hooks() { unimplemented!() }
}
// rule R14: calling the fn pointer `post_execute(&mut shell)` -> stub
#[verifier::external_body]
pub fn vx_call_post_execute(f: PostExecute, shell: &mut ShellForCommand) -> (r: Result<(), error::Error>)
    ensures final(shell).hooks() == old(shell).hooks() + 1
{ unimplemented!() }
// the part of SimpleCommand the tails read
pub struct SimpleCommandTail { pub args: Vec<CommandArg>, pub post_execute: Option<PostExecute>, pub process_group_id: Option<i32>, pub argv0: Option<String> }
#[verifier::external_body] pub struct ExecutionContext { _p: u8 }       // holds the `&mut` borrow of the command's shell in the original
pub mod builtins { use vstd::prelude::*; #[verifier::external_body] pub struct Registration { _p: u8 } }
pub mod functions { use vstd::prelude::*; #[verifier::external_body] pub struct Registration { _p: u8 } }
#[verifier::external_body]
pub fn execute_builtin_command(builtin: &builtins::Registration, context: ExecutionContext, args: Vec<CommandArg>) -> Result<ExecutionResult, error::Error> { unimplemented!() }
#[verifier::external_body]
pub fn invoke_shell_function(function: functions::Registration, context: ExecutionContext, args: &[CommandArg]) -> Result<ExecutionSpawnResult, error::Error> { unimplemented!() }
#[verifier::external_body]
pub fn execute_external_command(context: ExecutionContext, executable_path: &str, process_group_id: Option<i32>, argv0_override: Option<&str>, args: &[CommandArg]) -> Result<ExecutionSpawnResult, error::Error> { unimplemented!() }
#[verifier::external_body]
pub fn vx_as_deref(o: &Option<String>) -> (r: Option<&str>) ensures r is Some == o is Some { unimplemented!() }
pub open spec fn hook_once(old_s: ShellForCommand, new_s: ShellForCommand, hook: Option<PostExecute>) -> bool {
    new_s.hooks() == old_s.hooks() + (if hook is Some { 1nat } else { 0nat })
}
