// ---- POSIX XCU 2.9.3 "AND-OR Lists" as a left fold over child events.
//  * `a && b`: b runs iff a returned zero; `a || b`: b runs iff a returned non-zero; operators are left-associative with
//    equal precedence, so a short-circuited operand is *skipped* and evaluation continues with the next operator;
//  * a non-normal control flow (break/continue/return/exit) ends the list;
//  * errexit (2.8.1 / bash `set -e`): every operand except the one "following the final && or ||" is exempt, i.e. operand j
//    is executed suppressed iff the caller was already suppressed or j is not the last operand of the list.
pub open spec fn ao_pipe(a: ast::AndOr) -> ast::Pipeline { match a { ast::AndOr::And(p) => p, ast::AndOr::Or(p) => p } }
pub open spec fn eligible(a: ast::AndOr, cur_ok: bool) -> bool { match a { ast::AndOr::And(_) => cur_ok, ast::AndOr::Or(_) => !cur_ok } }
// least j >= k with additional[j] eligible, or len if none
pub open spec fn next_eligible(l: ast::AndOrList, k: int, cur_ok: bool) -> int
    decreases l.additional@.len() - k
{
    if k < 0 || k >= l.additional@.len() { l.additional@.len() as int }
    else if eligible(l.additional@[k], cur_ok) { k }
    else { next_eligible(l, k + 1, cur_ok) }
}
pub enum St {
    Start,
    Running { k: int, cf: ExecutionControlFlow, code: ExecutionExitCode },   // k = next index of `additional` to consider
    Err,
    Bad,
}
pub open spec fn ao_step(st: St, e: Ev, l: ast::AndOrList, outer: bool) -> St {
    let n = l.additional@.len() as int;
    match st {
        St::Start => {
            if e.node != Node::Pipe(l.first) || e.suppress != (outer || n > 0) { St::Bad }
            else if !e.ok { St::Err }
            else { St::Running { k: 0, cf: e.cf, code: e.code } }
        }
        St::Running { k, cf, code } => {
            let j = next_eligible(l, k, code is Success);
            if !(cf is Normal) || j >= n { St::Bad }            // list had already finished
            else if e.node != Node::Pipe(ao_pipe(l.additional@[j])) || e.suppress != (outer || j != n - 1) { St::Bad }
            else if !e.ok { St::Err }
            else { St::Running { k: j + 1, cf: e.cf, code: e.code } }
        }
        _ => St::Bad,
    }
}
pub open spec fn ao_run(evs: Seq<Ev>, l: ast::AndOrList, outer: bool) -> St decreases evs.len() {
    if evs.len() == 0 { St::Start } else { ao_step(ao_run(evs.drop_last(), l, outer), evs.last(), l, outer) }
}
// the list is finished in state st: nothing further is eligible (or flow is non-normal); its result is the last operand's
pub open spec fn ao_finished(st: St, l: ast::AndOrList, r: ExecutionResult) -> bool {
    match st {
        St::Running { k, cf, code } => cf == r.next_control_flow && code == r.exit_code
            && (!(cf is Normal) || next_eligible(l, k, code is Success) >= l.additional@.len()),
        _ => false,
    }
}
pub broadcast proof fn lemma_run_push(s: Seq<Ev>, e: Ev, l: ast::AndOrList, o: bool)
    ensures #[trigger] ao_run(s.push(e), l, o) == ao_step(ao_run(s, l, o), e, l, o),
{ assert(s.push(e).drop_last() =~= s); }

pub proof fn lemma_skip(l: ast::AndOrList, k: int, idx: int, cur_ok: bool)
    requires 0 <= k <= idx < l.additional@.len(),
        forall|j: int| k <= j < idx ==> !eligible(#[trigger] l.additional@[j], cur_ok),
    ensures next_eligible(l, k, cur_ok) == next_eligible(l, idx, cur_ok),
    decreases idx - k
{
    if k < idx { lemma_skip(l, k + 1, idx, cur_ok); }
}
pub proof fn lemma_none(l: ast::AndOrList, k: int, cur_ok: bool)
    requires 0 <= k <= l.additional@.len(),
        forall|j: int| k <= j < l.additional@.len() ==> !eligible(#[trigger] l.additional@[j], cur_ok),
    ensures next_eligible(l, k, cur_ok) >= l.additional@.len(),
    decreases l.additional@.len() - k
{
    if k < l.additional@.len() { lemma_none(l, k + 1, cur_ok); }
}
