// ---- prelude: `$?` and its change counter (C03).  An assignment-only command (`x=$(cmd)`) has the status of the last command
//  substitution that ran during its expansion, and 0 if none ran (POSIX XCU 2.9.1).  brush tells "a substitution set a status" by
//  comparing Shell::last_exit_status_change_count before and after the expansion, so EVERY update of `$?` has to bump the counter —
//  also one that stores the value already there (`v=$(false) || v=$(false)`: the second substitution fails with the status `$?`
//  already has).
pub mod error { use vstd::prelude::*; #[verifier::external_body] pub struct Error { _p: u8 } }
pub struct Shell { pub last_exit_status: u8, pub last_exit_status_change_count: usize }          // projection (both fields checked)
pub struct ExecutionResult { pub exit_code: u8 }                                                  // projection
impl ExecutionResult { pub fn new(exit_code: u8) -> (r: Self) ensures r.exit_code == exit_code { Self { exit_code } } }
pub enum ExecutionSpawnResult { Completed(ExecutionResult), Other }
impl vstd::std_specs::convert::FromSpecImpl<ExecutionResult> for ExecutionSpawnResult {
    open spec fn obeys_from_spec() -> bool { true }
    open spec fn from_spec(r: ExecutionResult) -> Self { ExecutionSpawnResult::Completed(r) }
}
impl From<ExecutionResult> for ExecutionSpawnResult { fn from(result: ExecutionResult) -> Self { Self::Completed(result) } }
impl Shell {
    // `$_` update: does not touch the status fields (stub read off its body)
    #[verifier::external_body]
    pub fn update_last_arg_variable(&mut self, last_arg: Option<String>) ensures *final(self) == *old(self) { unimplemented!() }
}
