// ---- C02: a builtin that is a stage of a multi-command pipeline runs as a task in its own copy of the shell
//  (commands.rs execute_via_builtin_in_owned_shell).  Whatever it asks for (exit, return, break, continue) concerns that copy only:
//  the shell that waits for the task must see its exit status and Normal control flow (`true | exit 3; echo still here`).
pub mod error {
    use vstd::prelude::*;
    #[verifier::external_body]
    pub struct Error { _p: u8 }
}
#[verifier::external_body] pub struct Shell { _p: u8 }
impl Shell { #[verifier::external_body] pub fn update_last_arg_variable(&mut self, last_arg: Option<String>) { unimplemented!() } }
#[verifier::external_body] pub struct ExecutionParameters { _p: u8 }
#[verifier::external_body] pub struct CommandArg { _p: u8 }
pub mod builtins { use vstd::prelude::*; #[verifier::external_body] pub struct Registration { _p: u8 } }
pub struct ExecutionContext<'a> { pub shell: &'a mut Shell, pub command_name: String, pub params: ExecutionParameters }
#[verifier::external_body]
pub fn execute_builtin_command(builtin: &builtins::Registration, context: ExecutionContext<'_>, args: Vec<CommandArg>) -> Result<ExecutionResult, error::Error> { unimplemented!() }
