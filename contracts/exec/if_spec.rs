// ---- POSIX XCU 2.9.4 "The if Conditional Construct" as a left fold over child events.
//  * conditions (if / elif) are executed with errexit suppressed whatever the caller's flag (2.8.1, bash `set -e`);
//  * the first condition returning zero selects exactly one body, executed with the caller's flag;
//  * a condition ending in a non-normal control flow (break/continue/return/exit) ends the construct with that result;
//  * "exit status: that of the then/else compound-list executed, or zero if none was executed".
pub open spec fn n_clauses(c: ast::IfClauseCommand) -> int {
    1 + (match c.elses { Some(v) => v@.len() as int, None => 0 })
}
pub open spec fn clause_cond(c: ast::IfClauseCommand, k: int) -> Option<ast::CompoundList> {
    if k == 0 { Some(c.condition) } else { c.elses->Some_0@[k - 1].condition }
}
pub open spec fn clause_body(c: ast::IfClauseCommand, k: int) -> ast::CompoundList {
    if k == 0 { c.then } else { c.elses->Some_0@[k - 1].body }
}
pub enum St {
    At { k: int },        // about to consider clause k (0 = if/then, k >= 1 = elses[k-1])
    Body { k: int },      // condition k succeeded; its body must run next
    Done(ExecutionControlFlow, ExecutionExitCode),
    Err,
    Bad,
}
pub open spec fn if_step(st: St, e: Ev, c: ast::IfClauseCommand, outer: bool) -> St {
    match st {
        St::At { k } => {
            if k < 0 || k >= n_clauses(c) { St::Bad }
            else {
                match clause_cond(c, k) {
                    Some(cl) => {
                        if e.node != Node::List(cl) || !e.suppress { St::Bad }
                        else if !e.ok { St::Err }
                        else if !(e.cf is Normal) { St::Done(e.cf, e.code) }
                        else if e.code is Success { St::Body { k } }
                        else { St::At { k: k + 1 } }
                    }
                    None => {
                        if e.node != Node::List(clause_body(c, k)) || e.suppress != outer { St::Bad }
                        else if !e.ok { St::Err }
                        else { St::Done(e.cf, e.code) }
                    }
                }
            }
        }
        St::Body { k } => {
            if e.node != Node::List(clause_body(c, k)) || e.suppress != outer { St::Bad }
            else if !e.ok { St::Err }
            else { St::Done(e.cf, e.code) }
        }
        _ => St::Bad,
    }
}
pub open spec fn if_run(evs: Seq<Ev>, c: ast::IfClauseCommand, outer: bool) -> St decreases evs.len() {
    if evs.len() == 0 { St::At { k: 0 } } else { if_step(if_run(evs.drop_last(), c, outer), evs.last(), c, outer) }
}
pub broadcast proof fn lemma_if_run_push(s: Seq<Ev>, e: Ev, c: ast::IfClauseCommand, o: bool)
    ensures #[trigger] if_run(s.push(e), c, o) == if_step(if_run(s, c, o), e, c, o),
{ assert(s.push(e).drop_last() =~= s); }
