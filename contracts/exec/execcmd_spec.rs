// ---- C09 / C18: interp::execute_command — the life of the `NAME=v cmd` scope.
//  A Command scope is pushed for the prefix assignments (through env::ScopeGuard, which pops it again when it is DROPPED unless it
//  was detached) and is finally popped by the command's post_execute hook.  On every exit the scope stack must be as deep as it was:
//  after an error in a prefix assignment (guard dropped, not detached) as well as after the command ran (guard detached, hook pops).
//  Verus does not model Drop, so every drop of the guard is made explicit (rule R23): `drop(guard)` and each `?` taken while the
//  guard is live call the body of `impl Drop for ScopeGuard`.
pub mod error { use vstd::prelude::*; #[verifier::external_body] pub struct Error { _p: u8 } }
#[derive(Clone, Copy)] pub enum EnvironmentScope { Local, Global, Command }
pub struct RuntimeOptionsP { pub print_commands_and_arguments: bool }
#[verifier::external_body] pub struct Shell { _p: u8 }
impl Shell {
    pub uninterp spec fn depth(&self) -> int;                    // ghost: number of scopes on the environment's stack
    #[verifier::external_body] pub fn options(&self) -> RuntimeOptionsP { unimplemented!() }
    #[verifier::external_body] pub fn trace_command(&mut self, params: &ExecutionParameters, text: String) ensures final(self).depth() == old(self).depth() { unimplemented!() }
}
// R14: shell.env_mut().push_scope(t) / pop_scope(t) (contracts proved in unit U13: exactly one scope more / less)
#[verifier::external_body] pub fn env_push_scope(shell: &mut Shell, t: EnvironmentScope) ensures final(shell).depth() == old(shell).depth() + 1 { unimplemented!() }
#[verifier::external_body] pub fn env_pop_scope(shell: &mut Shell, t: EnvironmentScope) -> (r: Result<(), error::Error>) ensures final(shell).depth() == old(shell).depth() - 1 { unimplemented!() }
#[verifier::external_body] pub struct ExecutionParameters { _p: u8 }
#[verifier::external_body] pub struct CommandArg { _p: u8 }
#[verifier::external_body] pub struct ExecutionSpawnResult { _p: u8 }
pub mod ast { use vstd::prelude::*; #[verifier::external_body] pub struct Assignment { _p: u8 } }
// projection of interp.rs PipelineExecutionContext: `shell` is ShellForCommand there (DerefMut to Shell); the parent-shell case
pub struct PipelineExecutionContext<'a> { pub shell: &'a mut Shell, pub process_group_id: Option<i32> }
#[verifier::external_body]
pub fn apply_assignment(assignment: &ast::Assignment, shell: &mut Shell, params: &ExecutionParameters, mut_export: bool, scope: Option<EnvironmentScope>, creation: EnvironmentScope) -> (r: Result<(), error::Error>)
    ensures final(shell).depth() == old(shell).depth()
{ unimplemented!() }
#[verifier::external_body] pub fn quote_args_for_tracing(args: &[CommandArg]) -> String { unimplemented!() }
// the post_execute hook installed by execute_command: `|shell| shell.env_mut().pop_scope(EnvironmentScope::Command)`
#[verifier::external_body] pub struct Hook { _p: u8 }
#[verifier::external_body] pub fn pop_command_scope_hook() -> Hook { unimplemented!() }
pub struct SimpleCommand<'a> { pub shell: &'a mut Shell, pub process_group_id: Option<i32>, pub post_execute: Option<Hook> }
#[verifier::external_body]
pub fn simple_command_new<'a>(shell: &'a mut Shell, params: ExecutionParameters, name: String, args: &[CommandArg]) -> (r: SimpleCommand<'a>)
    ensures (*r.shell).depth() == old(shell).depth(), *final(r.shell) == *final(shell), r.post_execute is None
{ unimplemented!() }
#[verifier::external_body]
pub fn on_preexecute(cmd: &mut SimpleCommand<'_>) -> (r: Result<(), error::Error>)
    ensures (*final(cmd).shell).depth() == (*old(cmd).shell).depth(), *final(final(cmd).shell) == *final(old(cmd).shell), final(cmd).post_execute == old(cmd).post_execute
{ unimplemented!() }
// SimpleCommand::execute: the hook runs exactly once on every exit (proved in units U4r / U4m); the hook pops one scope (U13)
#[verifier::external_body]
pub fn simple_command_execute(cmd: SimpleCommand<'_>) -> (r: Result<ExecutionSpawnResult, error::Error>)
    ensures final(cmd.shell).depth() == old(cmd.shell).depth() - (if cmd.post_execute is Some { 1int } else { 0int })
{ unimplemented!() }
