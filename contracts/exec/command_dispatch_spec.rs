pub mod error { use vstd::prelude::*; #[verifier::external_body] pub struct Error { _p: u8 } }
#[verifier::external_body] pub struct Shell { _p: u8 }
#[verifier::external_body] pub struct ParamsRest { _p: u8 }
#[verifier::external_body] pub struct ExecutionResult { _p: u8 }
pub struct ExecutionParameters { pub rest: ParamsRest, pub suppress_errexit: bool }
pub enum ExecutionSpawnResult { Completed(ExecutionResult), Other }
pub struct RuntimeOptionsP { pub do_not_execute_commands: bool }

// ghost log of what running this command did, in order
pub enum Ev {
    Redirect(ast::IoRedirect, bool /* set up without error */),
    Body(ast::CompoundCommand, bool /* errexit exemption the body runs under */),
    Simple(ast::SimpleCommand, bool),
    Define(ast::FunctionDefinition),
    Report(bool /* the error message could be written */),
}
pub uninterp spec fn success_spec() -> ExecutionResult;
pub uninterp spec fn general_error_spec() -> ExecutionResult;
pub uninterp spec fn errexit_spec(sh: Shell, r: ExecutionResult) -> ExecutionResult;     // Shell::apply_errexit_if_enabled (body proved in U3)
impl ExecutionResult {
    #[verifier::external_body] pub fn success() -> (r: Self) ensures r == success_spec() { unimplemented!() }
    #[verifier::external_body] pub fn general_error() -> (r: Self) ensures r == general_error_spec() { unimplemented!() }
    // From<ExecutionResult> for ExecutionSpawnResult (`.into()`): Completed(result) (results.rs; U1)
    #[verifier::external_body] pub fn vx_completed(self) -> (r: ExecutionSpawnResult) ensures r == ExecutionSpawnResult::Completed(self) { unimplemented!() }
}
impl Shell {
    pub uninterp spec fn log(&self) -> Seq<Ev>;
    pub uninterp spec fn dry_run(&self) -> bool;
    #[verifier::external_body] pub fn options(&self) -> (r: RuntimeOptionsP) ensures r.do_not_execute_commands == self.dry_run() { unimplemented!() }
    #[verifier::external_body] pub fn set_current_cmd(&mut self, cmd: &ast::Command) ensures final(self).log() == old(self).log(), final(self).dry_run() == old(self).dry_run() { unimplemented!() }
    #[verifier::external_body] pub fn apply_errexit_if_enabled(&self, result: &mut ExecutionResult) ensures *final(result) == errexit_spec(*self, *old(result)) { unimplemented!() }
}
#[verifier::external_body]
pub fn setup_redirect(shell: &mut Shell, params: &mut ExecutionParameters, redirect: &ast::IoRedirect) -> (r: Result<(), error::Error>)
    ensures final(shell).log() == old(shell).log().push(Ev::Redirect(*redirect, r is Ok)), final(params).suppress_errexit == old(params).suppress_errexit { unimplemented!() }
// R8: writeln!(params.stderr(shell), "error: {e}")?  (formatted text lost, error path kept; logged so that an Err can be told from the redirection's own)
#[verifier::external_body]
pub fn report_redirect_error(params: &ExecutionParameters, shell: &mut Shell, e: &error::Error) -> (r: Result<(), error::Error>)
    ensures final(shell).log() == old(shell).log().push(Ev::Report(r is Ok)), final(shell).dry_run() == old(shell).dry_run(), errexit_same(*old(shell), *final(shell)) { unimplemented!() }
pub open spec fn errexit_same(a: Shell, b: Shell) -> bool { forall|r: ExecutionResult| errexit_spec(a, r) == errexit_spec(b, r) }
// the three kinds of command, each an abstract child: one event
#[verifier::external_body]
pub fn simple_execute_in_pipeline(simple: &ast::SimpleCommand, shell: &mut Shell, params: ExecutionParameters) -> (r: Result<ExecutionSpawnResult, error::Error>)
    ensures final(shell).log() == old(shell).log().push(Ev::Simple(*simple, params.suppress_errexit)) { unimplemented!() }
impl ast::CompoundCommand {
    #[verifier::external_body]
    pub fn execute(&self, shell: &mut Shell, params: &ExecutionParameters) -> (r: Result<ExecutionResult, error::Error>)
        ensures final(shell).log() == old(shell).log().push(Ev::Body(*self, params.suppress_errexit)) { unimplemented!() }
}
impl ast::FunctionDefinition {
    #[verifier::external_body]
    pub fn execute(&self, shell: &mut Shell, params: &ExecutionParameters) -> (r: Result<ExecutionResult, error::Error>)
        ensures final(shell).log() == old(shell).log().push(Ev::Define(*self)) { unimplemented!() }
}
pub open spec fn new_events(before: Seq<Ev>, after: Seq<Ev>) -> Seq<Ev> { after.subrange(before.len() as int, after.len() as int) }
pub broadcast proof fn lemma_new_events_push(a: Seq<Ev>, b: Seq<Ev>, e: Ev)
    requires a.is_prefix_of(b),
    ensures #[trigger] new_events(a, b.push(e)) == new_events(a, b).push(e), a.is_prefix_of(b.push(e)),
{ assert(new_events(a, b.push(e)) =~= new_events(a, b).push(e)); }
pub open spec fn redirect_list(l: Option<ast::RedirectList>) -> Seq<ast::IoRedirect> { match l { Some(x) => x.0@, None => Seq::empty() } }
// C10 for a compound command: its redirections are set up one by one in the order written; the body runs after all of them, under the
// exemption the command was given; the first one that fails ends the command — nothing after it is set up, the body does not run, and
// the command has failed with status 1 (the shell exits only under errexit outside an exempt context), the script goes on
pub open spec fn compound_ran(rs: Seq<ast::IoRedirect>, c: ast::CompoundCommand, suppress: bool, t: Seq<Ev>, res: Result<ExecutionSpawnResult, error::Error>, sh: Shell) -> bool {
    ||| (t.len() == rs.len() + 1 && (forall|j: int| 0 <= j < rs.len() ==> #[trigger] t[j] == Ev::Redirect(rs[j], true)) && t[rs.len() as int] == Ev::Body(c, suppress))
    ||| (2 <= t.len() <= rs.len() + 1 && ({ let k = t.len() - 2;
            &&& (forall|j: int| 0 <= j < k ==> #[trigger] t[j] == Ev::Redirect(rs[j], true))
            &&& t[k] == Ev::Redirect(rs[k], false)
            &&& t[k + 1] is Report
            &&& (t[k + 1]->Report_0 ==> res == Ok::<ExecutionSpawnResult, error::Error>(ExecutionSpawnResult::Completed(
                    if suppress { general_error_spec() } else { errexit_spec(sh, general_error_spec()) })))
        }))
}
