// ---- C03 "pipefail produces the same pipeline status" / C02 "$? after every construct":
//  bash manual, Pipelines: "The exit status of a pipeline is the exit status of the last command in the pipeline, unless the
//  pipefail option is enabled.  If pipefail is enabled, the pipeline's return status is the value of the last (rightmost)
//  command to exit with a non-zero status, or zero if all commands exit successfully."  PIPESTATUS: "the exit status values
//  from the processes in the most-recently-executed foreground pipeline", in order.
pub mod error {
    use vstd::prelude::*;
    #[verifier::external_body]
    pub struct Error { _p: u8 }
}
pub mod processes { use vstd::prelude::*; #[verifier::external_body] pub struct ChildProcess { _p: u8 } }
#[verifier::external_body] pub struct ExecutionSpawnResult { _p: u8 }      // a launched stage; what waiting on it yields is abstract
pub uninterp spec fn outcome_of(c: ExecutionSpawnResult, polled: bool) -> Option<ExecutionWaitResult>;   // None: waiting itself failed
impl ExecutionSpawnResult {
    #[verifier::external_body]
    pub fn wait(self) -> (r: Result<ExecutionWaitResult, error::Error>)
        ensures match outcome_of(self, false) { Some(w) => r == Ok::<ExecutionWaitResult, error::Error>(w), None => r is Err }
    { unimplemented!() }
    #[verifier::external_body]
    pub fn poll(self) -> (r: Result<ExecutionWaitResult, error::Error>)
        ensures match outcome_of(self, true) { Some(w) => r == Ok::<ExecutionWaitResult, error::Error>(w), None => r is Err }
    { unimplemented!() }
}
pub mod jobs {
    use vstd::prelude::*;
    use super::*;
    pub enum JobTask { External(processes::ChildProcess) }       // projection (variant checked)
    pub enum JobState { Stopped }
    #[verifier::external_body] pub struct Job { _p: u8 }
    impl Job {
        #[verifier::external_body] pub fn new(tasks: Vec<JobTask>, command_line: String, state: JobState) -> Self { unimplemented!() }
        #[verifier::external_body] pub fn to_string(&self) -> String { unimplemented!() }
    }
}
// RuntimeOptions: the real struct of brush-core/src/options.rs is extracted by the unit
#[verifier::external_body] pub struct ShellRest { _p: u8 }
// projection: the three pieces of shell state the function writes, as plain fields
pub struct Shell { pub last_exit_status: u8, pub last_pipeline_statuses: Vec<u8>, pub opts: RuntimeOptions, pub rest: ShellRest }
impl Shell {
    pub fn set_last_exit_status(&mut self, status: u8)
        ensures final(self).last_exit_status == status, final(self).last_pipeline_statuses == old(self).last_pipeline_statuses, final(self).opts == old(self).opts
    { self.last_exit_status = status; }
    pub fn options(&self) -> (r: &RuntimeOptions) ensures *r == self.opts { &self.opts }
}
// rule R14: `shell.last_pipeline_statuses_mut().m(a)` / `shell.jobs_mut().m(a)` flattened to stub calls
pub fn last_pipeline_statuses_mut__clear(shell: &mut Shell)
    ensures final(shell).last_pipeline_statuses@ == Seq::<u8>::empty(), final(shell).last_exit_status == old(shell).last_exit_status, final(shell).opts == old(shell).opts
{ shell.last_pipeline_statuses.clear(); }
pub fn last_pipeline_statuses_mut__push(shell: &mut Shell, v: u8)
    ensures final(shell).last_pipeline_statuses@ == old(shell).last_pipeline_statuses@.push(v), final(shell).last_exit_status == old(shell).last_exit_status, final(shell).opts == old(shell).opts
{ shell.last_pipeline_statuses.push(v); }
#[verifier::external_body]
pub fn jobs_mut__add_as_current(shell: &mut Shell, job: jobs::Job) -> (r: jobs::Job)
    ensures final(shell).last_exit_status == old(shell).last_exit_status, final(shell).last_pipeline_statuses == old(shell).last_pipeline_statuses, final(shell).opts == old(shell).opts
{ unimplemented!() }
pub mod sys { pub mod terminal {
    use vstd::prelude::*;
    #[verifier::external_body] pub fn move_self_to_foreground() -> Result<(), super::super::error::Error> { unimplemented!() }
} }
#[verifier::external_body] pub struct ExecutionParameters { _p: u8 }
#[verifier::external_body] pub fn vx_io_write(shell: &Shell, params: &ExecutionParameters, text: &String) -> Result<(), error::Error> { unimplemented!() }
#[verifier::external_body] pub fn vx_pipeline_text(pipeline: &ast::Pipeline) -> String { unimplemented!() }

// ---- the fold the property describes
pub open spec fn stage_result(w: ExecutionWaitResult) -> ExecutionResult {
    match w { ExecutionWaitResult::Completed(r) => r,
              ExecutionWaitResult::Stopped(_) => ExecutionResult { next_control_flow: ExecutionControlFlow::Normal, exit_code: code_of(148) } }
}
pub struct Acc { pub last: ExecutionResult, pub statuses: Seq<u8>, pub last_failure: Option<ExecutionExitCode>, pub any_stopped: bool, pub failed: bool }
pub open spec fn acc0() -> Acc {
    Acc { last: ExecutionResult { next_control_flow: ExecutionControlFlow::Normal, exit_code: ExecutionExitCode::Success }, statuses: Seq::empty(), last_failure: None, any_stopped: false, failed: false }
}
pub open spec fn acc_step(a: Acc, c: ExecutionSpawnResult) -> Acc {
    if a.failed { a } else {
        match outcome_of(c, a.any_stopped) {
            None => Acc { failed: true, ..a },
            Some(w) => {
                let r = stage_result(w);
                Acc { last: r, statuses: a.statuses.push(u8_of(r.exit_code)),
                      // only stages that ran to completion count for pipefail (a stopped stage has not exited)
                      last_failure: if w is Completed && !(r.exit_code is Success) { Some(r.exit_code) } else { a.last_failure },
                      any_stopped: a.any_stopped || w is Stopped, failed: false }
            }
        }
    }
}
pub open spec fn acc_fold(cs: Seq<ExecutionSpawnResult>) -> Acc decreases cs.len() {
    if cs.len() == 0 { acc0() } else { acc_step(acc_fold(cs.drop_last()), cs.last()) }
}
pub proof fn lemma_acc_fold_push(cs: Seq<ExecutionSpawnResult>, c: ExecutionSpawnResult)
    ensures acc_fold(cs.push(c)) == acc_step(acc_fold(cs), c)
{ assert(cs.push(c).drop_last() =~= cs); }
