// ---- POSIX XCU 2.9.4 "The while Loop" / "The until Loop" as a left fold over child events.
//  * the condition list is executed with errexit suppressed (2.8.1 / bash manual `set -e`: "the command list immediately
//    following a while or until keyword" is exempt), whatever the caller's flag was;
//  * the body gets the caller's flag unchanged;
//  * "the exit status shall be the exit status of the last compound-list-2 executed, or zero if none was executed";
//  * break/continue consume one level per enclosing loop (2.14), return/exit pass through untouched.
pub enum St {
    Running { expect_cond: bool, last_code: ExecutionExitCode },
    Done(ExecutionControlFlow, ExecutionExitCode),
    Err,
    Bad,
}
pub open spec fn wstep(st: St, e: Ev, is_while: bool, outer_suppress: bool, cond: ast::CompoundList, body: ast::CompoundList) -> St {
    match st {
        St::Running { expect_cond, last_code } => {
            if expect_cond {
                if e.node != Node::List(cond) || !e.suppress { St::Bad }
                else if !e.ok { St::Err }
                else if !(e.cf is Normal) { St::Done(dec_spec(e.cf), e.code) }
                else if (e.code is Success) != is_while { St::Done(ExecutionControlFlow::Normal, last_code) }
                else { St::Running { expect_cond: false, last_code } }
            } else {
                if e.node != Node::List(body) || e.suppress != outer_suppress { St::Bad }
                else if !e.ok { St::Err }
                else if e.cf is ReturnFromFunctionOrScript || e.cf is ExitShell { St::Done(e.cf, e.code) }
                else if e.cf is BreakLoop { St::Done(dec_spec(e.cf), e.code) }
                else if e.cf is ContinueLoop && !(dec_spec(e.cf) is Normal) { St::Done(dec_spec(e.cf), e.code) }
                else { St::Running { expect_cond: true, last_code: e.code } }
            }
        }
        _ => St::Bad,
    }
}
pub open spec fn wrun(evs: Seq<Ev>, is_while: bool, outer_suppress: bool, cond: ast::CompoundList, body: ast::CompoundList) -> St
    decreases evs.len()
{
    if evs.len() == 0 { St::Running { expect_cond: true, last_code: ExecutionExitCode::Success } }
    else { wstep(wrun(evs.drop_last(), is_while, outer_suppress, cond, body), evs.last(), is_while, outer_suppress, cond, body) }
}
pub broadcast proof fn lemma_wrun_push(s: Seq<Ev>, e: Ev, w: bool, o: bool, c: ast::CompoundList, b: ast::CompoundList)
    ensures #[trigger] wrun(s.push(e), w, o, c, b) == wstep(wrun(s, w, o, c, b), e, w, o, c, b),
{
    assert(s.push(e).drop_last() =~= s);
}
