// ---- bash manual, "Looping Constructs": for (( expr1 ; expr2 ; expr3 )) ; do list ; done — as a left fold over child events.
//  "First, expr1 is evaluated.  expr2 is then evaluated repeatedly until it evaluates to zero.  Each time expr2 evaluates to a
//   non-zero value, list is executed and expr3 is evaluated.  If any expression is omitted, it behaves as if it evaluates to 1.
//   The return value is the exit status of the last command in list that is executed" (0 if none).
//  break/continue/return/exit in the body behave as in every loop (POSIX 2.14); the body gets the caller's errexit flag.
pub mod arithmetic {
    use vstd::prelude::*;
    #[verifier::external_body]
    pub struct EvalError { _p: u8 }
}
impl vstd::std_specs::convert::FromSpecImpl<arithmetic::EvalError> for error::Error {
    open spec fn obeys_from_spec() -> bool { false }
    open spec fn from_spec(e: arithmetic::EvalError) -> Self { arbitrary() }
}
impl From<arithmetic::EvalError> for error::Error {
    #[verifier::external_body]
    fn from(e: arithmetic::EvalError) -> Self { unimplemented!() }
}
pub open spec fn arith_event(old_t: Seq<Ev>, new_t: Seq<Ev>, node: Node, r: Result<i64, arithmetic::EvalError>) -> bool {
    &&& new_t == old_t.push(new_t.last())
    &&& new_t.last().node == node
    &&& new_t.last().ok == r.is_ok()
    &&& (r.is_ok() ==> new_t.last().val == r->Ok_0)
}
impl ast::UnexpandedArithmeticExpr {
    #[verifier::external_body]
    pub fn eval(&self, shell: &mut Shell, params: &ExecutionParameters, trace_if_needed: bool) -> (r: Result<i64, arithmetic::EvalError>)
        ensures arith_event(old(shell).trace(), final(shell).trace(), Node::Arith(*self), r),
    { unimplemented!() }
}

pub open spec fn has_cond(c: ast::ArithmeticForClauseCommand) -> bool {
    c.condition is Some && c.condition->Some_0.value@.len() > 0
}
pub enum St {
    Init,
    Cond { last: ExecutionExitCode },
    Body { last: ExecutionExitCode },
    Upd { last: ExecutionExitCode },
    Done(ExecutionControlFlow, ExecutionExitCode),
    Err,
    Bad,
}
pub open spec fn body_step(e: Ev, c: ast::ArithmeticForClauseCommand, outer: bool) -> St {
    if e.node != Node::List(c.body.list) || e.suppress != outer { St::Bad }
    else if !e.ok { St::Err }
    else if e.cf is ReturnFromFunctionOrScript || e.cf is ExitShell { St::Done(e.cf, e.code) }
    else if e.cf is BreakLoop { St::Done(dec_spec(e.cf), e.code) }
    else if e.cf is ContinueLoop && !(dec_spec(e.cf) is Normal) { St::Done(dec_spec(e.cf), e.code) }
    else if c.updater is Some { St::Upd { last: e.code } }
    else { St::Cond { last: e.code } }
}
pub open spec fn af_step(st: St, e: Ev, c: ast::ArithmeticForClauseCommand, outer: bool) -> St {
    match st {
        St::Init => {
            if !(c.initializer is Some) || e.node != Node::Arith(c.initializer->Some_0) { St::Bad }
            else if !e.ok { St::Err }
            else { St::Cond { last: ExecutionExitCode::Success } }
        }
        St::Cond { last } => {
            if has_cond(c) {
                if e.node != Node::Arith(c.condition->Some_0) { St::Bad }
                else if !e.ok { St::Err }
                else if e.val == 0 { St::Done(ExecutionControlFlow::Normal, last) }
                else { St::Body { last } }
            } else { body_step(e, c, outer) }
        }
        St::Body { last } => body_step(e, c, outer),
        St::Upd { last } => {
            if !(c.updater is Some) || e.node != Node::Arith(c.updater->Some_0) { St::Bad }
            else if !e.ok { St::Err }
            else { St::Cond { last } }
        }
        _ => St::Bad,
    }
}
pub open spec fn af_run(evs: Seq<Ev>, c: ast::ArithmeticForClauseCommand, outer: bool) -> St decreases evs.len() {
    if evs.len() == 0 { if c.initializer is Some { St::Init } else { St::Cond { last: ExecutionExitCode::Success } } }
    else { af_step(af_run(evs.drop_last(), c, outer), evs.last(), c, outer) }
}
pub broadcast proof fn lemma_af_run_push(s: Seq<Ev>, e: Ev, c: ast::ArithmeticForClauseCommand, o: bool)
    ensures #[trigger] af_run(s.push(e), c, o) == af_step(af_run(s, c, o), e, c, o),
{ assert(s.push(e).drop_last() =~= s); }
