// ---- POSIX XCU 2.9.3 "Lists": sequential lists run their and-or lists in order; "the exit status of an asynchronous
//      list shall be zero"; a non-normal control flow (break/continue/return/exit) ends the list and is passed on; each and-or
//      list gets the caller's errexit flag unchanged (the exemption is decided inside the and-or list).
pub mod jobs {
    use vstd::prelude::*;
    #[verifier::external_body]
    pub struct Job { _p: u8 }
    impl Job {
        #[verifier::external_body]
        pub fn to_pid_style_string(&self) -> String { unimplemented!() }
    }
}
// RuntimeOptions: the real struct of brush-core/src/options.rs is extracted by the unit
impl Shell {
    #[verifier::external_body]
    pub fn options(&self) -> &RuntimeOptions { unimplemented!() }
    #[verifier::external_body]
    pub fn is_subshell(&self) -> bool { unimplemented!() }
}
// the job announcement `writeln!(params.stderr(shell), ..)?` (rule R8: formatted text lost, error path kept)
#[verifier::external_body]
pub fn vx_io_write(shell: &Shell, params: &ExecutionParameters, text: &String) -> Result<(), error::Error> { unimplemented!() }

// spawning an asynchronous and-or list: one event, no result to wait for
#[verifier::external_body]
pub fn spawn_async_ao_list_in_task<'a>(ao_list: &ast::AndOrList, shell: &'a mut Shell, params: &ExecutionParameters) -> (job: &'a jobs::Job)
    ensures
        final(shell).trace() == old(shell).trace().push(final(shell).trace().last()),
        final(shell).trace().last().node == Node::Async(*ao_list),
        final(shell).trace().last().ok,
        final(shell).status() == old(shell).status(),
{ unimplemented!() }

pub enum St {
    At { k: int, code: ExecutionExitCode, synced: bool },     // items 0..k done, all with normal flow; `synced`: $? == code (always, once an item has run: an asynchronous list leaves $? = 0)
    Done(ExecutionControlFlow, ExecutionExitCode),
    Err,
    Bad,
}
pub open spec fn cl_step(st: St, e: Ev, l: ast::CompoundList, outer: bool) -> St {
    match st {
        St::At { k, code, synced } => {
            if k < 0 || k >= l.0@.len() { St::Bad }
            else if l.0@[k].1 is Async {
                if e.node != Node::Async(l.0@[k].0) { St::Bad }
                else { St::At { k: k + 1, code: ExecutionExitCode::Success, synced: true } }
            } else {
                if e.node != Node::AndOr(l.0@[k].0) || e.suppress != outer { St::Bad }
                else if !e.ok { St::Err }
                else if !(e.cf is Normal) { St::Done(e.cf, e.code) }
                else { St::At { k: k + 1, code: e.code, synced: true } }
            }
        }
        _ => St::Bad,
    }
}
pub open spec fn cl_run(evs: Seq<Ev>, l: ast::CompoundList, outer: bool) -> St decreases evs.len() {
    if evs.len() == 0 { St::At { k: 0, code: ExecutionExitCode::Success, synced: false } }
    else { cl_step(cl_run(evs.drop_last(), l, outer), evs.last(), l, outer) }
}
pub broadcast proof fn lemma_cl_run_push(s: Seq<Ev>, e: Ev, l: ast::CompoundList, o: bool)
    ensures #[trigger] cl_run(s.push(e), l, o) == cl_step(cl_run(s, l, o), e, l, o),
{ assert(s.push(e).drop_last() =~= s); }
