pub mod error { use vstd::prelude::*; #[verifier::external_body] pub struct Error { _p: u8 } }
#[verifier::external_body] pub struct Shell { _p: u8 }
#[verifier::external_body] pub struct OpenFile { _p: u8 }
#[verifier::external_body] pub struct OpenFiles { _p: u8 }
#[verifier::external_body] pub struct ExecutionSpawnResult { _p: u8 }
pub struct ExecutionParameters { pub open_files: OpenFiles }
impl OpenFiles { #[verifier::external_body] pub fn set_fd(&mut self, fd: i32, f: OpenFile) -> Option<OpenFile> { unimplemented!() } }

// ghost log of what this command did to the shell, in order
pub enum Ev { Redirect(ast::IoRedirect, bool /* set up without error */), ExpandAssign(ast::Assignment), ExpandWord(ast::Word) }
impl Shell {
    pub uninterp spec fn log(&self) -> Seq<Ev>;
    // R14: `shell.aliases().get(name)` and `shell.builtins().get(name).is_some_and(|r| !r.disabled && r.declaration_builtin)`
    #[verifier::external_body] pub fn alias_value(&self, name: &str) -> Option<&String> { unimplemented!() }
    #[verifier::external_body] pub fn is_declaration_builtin(&self, name: &str) -> bool { unimplemented!() }
}
#[verifier::external_body]
pub fn setup_redirect(shell: &mut Shell, params: &mut ExecutionParameters, redirect: &ast::IoRedirect) -> (r: Result<(), error::Error>)
    ensures final(shell).log() == old(shell).log().push(Ev::Redirect(*redirect, r is Ok)) { unimplemented!() }
#[verifier::external_body]
pub fn setup_process_substitution(shell: &Shell, params: &ExecutionParameters, kind: &ast::ProcessSubstitutionKind, subshell_cmd: &ast::SubshellCommand) -> Result<(i32, OpenFile), error::Error> { unimplemented!() }
#[verifier::external_body]
pub fn expand_assignment(shell: &mut Shell, params: &ExecutionParameters, assignment: &ast::Assignment) -> (r: Result<ast::Assignment, error::Error>)
    ensures final(shell).log() == old(shell).log().push(Ev::ExpandAssign(*assignment)) { unimplemented!() }
pub mod expansion { use vstd::prelude::*; use super::*;
    #[verifier::external_body]
    pub fn full_expand_and_split_word(shell: &mut Shell, params: &ExecutionParameters, word: &ast::Word) -> (r: Result<Vec<String>, error::Error>)
        ensures final(shell).log() == old(shell).log().push(Ev::ExpandWord(*word)) { unimplemented!() }
}
// R8: writeln!(params.stderr(shell), "error: {e}")?  (formatted text lost, error path kept)
#[verifier::external_body] pub fn report_redirect_error(params: &ExecutionParameters, shell: &Shell, e: &error::Error) -> Result<(), error::Error> { unimplemented!() }
#[verifier::external_body] pub fn general_error_spawn_result() -> ExecutionSpawnResult { unimplemented!() }     // ExecutionResult::general_error().into()
#[verifier::external_body] pub fn dev_fd_path(fd: i32) -> String { unimplemented!() }                           // format!("/dev/fd/{fd}")
#[verifier::external_body] pub fn split_alias_words(v: &String) -> Vec<String> { unimplemented!() }             // split_ascii_whitespace().map(to_owned).collect()
// `.into_iter().map(CommandArg::String).collect()`: every string as an argument, in order
pub trait VxStringArgs { fn vx_string_args(self) -> Vec<CommandArg>; }
impl VxStringArgs for Vec<String> { #[verifier::external_body] fn vx_string_args(self) -> Vec<CommandArg> { unimplemented!() } }

// the redirections among a run of events / of items, in order (fold-left, so that one more element is one step)
pub open spec fn redirs(log: Seq<Ev>) -> Seq<ast::IoRedirect> decreases log.len() {
    if log.len() == 0 { Seq::empty() }
    else { match log.last() { Ev::Redirect(r, _) => redirs(log.drop_last()).push(r), _ => redirs(log.drop_last()) } }
}
pub open spec fn item_redirs(items: Seq<ast::CommandPrefixOrSuffixItem>) -> Seq<ast::IoRedirect> decreases items.len() {
    if items.len() == 0 { Seq::empty() }
    else { match items.last() { ast::CommandPrefixOrSuffixItem::IoRedirect(r) => item_redirs(items.drop_last()).push(r), _ => item_redirs(items.drop_last()) } }
}
pub open spec fn all_redirs_ok(log: Seq<Ev>) -> bool { forall|i: int| 0 <= i < log.len() ==> ((#[trigger] log[i]) is Redirect ==> log[i]->Redirect_1) }
pub open spec fn new_events(before: Seq<Ev>, after: Seq<Ev>) -> Seq<Ev> { after.subrange(before.len() as int, after.len() as int) }
pub broadcast proof fn lemma_redirs_push(log: Seq<Ev>, e: Ev)
    ensures #[trigger] redirs(log.push(e)) == (match e { Ev::Redirect(r, _) => redirs(log).push(r), _ => redirs(log) }),
{ assert(log.push(e).drop_last() =~= log); }
pub broadcast proof fn lemma_item_redirs_push(items: Seq<ast::CommandPrefixOrSuffixItem>, x: ast::CommandPrefixOrSuffixItem)
    ensures #[trigger] item_redirs(items.push(x)) == (match x { ast::CommandPrefixOrSuffixItem::IoRedirect(r) => item_redirs(items).push(r), _ => item_redirs(items) }),
{ assert(items.push(x).drop_last() =~= items); }
pub broadcast proof fn lemma_new_events_push(a: Seq<Ev>, b: Seq<Ev>, e: Ev)
    requires a.is_prefix_of(b),
    ensures #[trigger] new_events(a, b.push(e)) == new_events(a, b).push(e), a.is_prefix_of(b.push(e)),
{ assert(new_events(a, b.push(e)) =~= new_events(a, b).push(e)); }
