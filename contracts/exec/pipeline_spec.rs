// ---- C03 at the pipeline boundary (bash manual, Pipelines: "If the reserved word ! precedes a pipeline, the exit status of
//      that pipeline is the logical negation of the exit status"; `set -e`: the shell does not exit if the failing command
//      is part of a test, of a non-final &&/|| operand (decided by the callers: the incoming flag), or "if the command's return
//      value is being inverted with !"; "a trap on ERR, if set, is executed ... subject to the same conditions").
//  Projection of ast::Pipeline: only `bang` is read by the slice (field presence checked).
pub mod traps {
    use vstd::prelude::*;
    pub enum TrapSignal { Err }                // projection of traps.rs TrapSignal (variant checked)
    #[verifier::external_body]
    pub struct TrapHandlerConfig { _p: u8 }
    impl TrapHandlerConfig {
        pub uninterp spec fn handles_err(&self) -> bool;
        #[verifier::external_body]
        pub fn handles(&self, signal_type: TrapSignal) -> (r: bool) ensures r == self.handles_err() { unimplemented!() }
    }
}
pub uninterp spec fn other_traps(o: ShellOther) -> traps::TrapHandlerConfig;
pub uninterp spec fn other_errexit(o: ShellOther) -> bool;
#[verifier::external_body]
pub struct SpawnResults { _p: u8 }
impl Shell {
    pub open spec fn traps_spec(&self) -> traps::TrapHandlerConfig { other_traps(self.other()) }
    pub open spec fn errexit_on(&self) -> bool { other_errexit(self.other()) }
    #[verifier::external_body]
    pub fn traps(&self) -> (r: &traps::TrapHandlerConfig) ensures *r == self.traps_spec() { unimplemented!() }
    // contract of Shell::apply_errexit_if_enabled as proved in unit U3
    #[verifier::external_body]
    pub fn apply_errexit_if_enabled(&self, result: &mut ExecutionResult)
        ensures *final(result) == errexit_spec(self.errexit_on(), *old(result))
    { unimplemented!() }
    // contract of Shell::invoke_trap_handler as proved in the traps unit: $? preserved; one Trap event
    #[verifier::external_body]
    pub fn invoke_trap_handler(&mut self, signal: traps::TrapSignal, params: &ExecutionParameters) -> (r: Result<ExecutionResult, error::Error>)
        ensures
            final(self).trace() == old(self).trace().push(final(self).trace().last()),
            final(self).trace().last().node == Node::TrapErr,
            final(self).trace().last().ok == r.is_ok(),
            final(self).status() == old(self).status(),
    { unimplemented!() }
}
pub open spec fn errexit_spec(on: bool, r: ExecutionResult) -> ExecutionResult {
    if on && !(r.exit_code is Success) && r.next_control_flow is Normal {
        ExecutionResult { next_control_flow: ExecutionControlFlow::ExitShell, exit_code: r.exit_code }
    } else { r }
}
#[verifier::external_body]
pub fn spawn_pipeline_processes(pipeline: &ast::Pipeline, shell: &mut Shell, params: &ExecutionParameters) -> (r: Result<SpawnResults, error::Error>)
    ensures
        final(shell).trace() == old(shell).trace().push(final(shell).trace().last()),
        final(shell).trace().last().node == Node::Spawn(*pipeline),
        final(shell).trace().last().suppress == params.suppress_errexit,
        final(shell).trace().last().ok == r.is_ok(),
{ unimplemented!() }
#[verifier::external_body]
pub fn wait_for_pipeline_processes_and_update_status(pipeline: &ast::Pipeline, spawn_results: SpawnResults, shell: &mut Shell, params: &ExecutionParameters) -> (r: Result<ExecutionResult, error::Error>)
    ensures
        child_event(old(shell).trace(), final(shell).trace(), Node::Wait(*pipeline), params.suppress_errexit, r),
        final(shell).trace().last().aux.handles_err == final(shell).traps_spec().handles_err(),
{ unimplemented!() }

// bash(1), set -e: "If a compound command other than a subshell returns a non-zero status because a command failed while -e was being
// ignored, the shell does not exit."  A brace group, loop, `if` or `case` has no status of its own: with a normal flow it is non-zero only
// through a command that failed while exempt (a failure that was not exempt has already turned the flow into an exit request).  (( )),
// [[ ]], coproc and subshells fail by themselves.  The ERR trap follows the same conditions.
pub open spec fn groups_only(p: ast::Pipeline) -> bool {
    p.seq@.len() == 1 && (match p.seq@[0] {
        ast::Command::Compound(c, _) => c is BraceGroup || c is ForClause || c is ArithmeticForClause || c is CaseClause || c is IfClause || c is WhileClause || c is UntilClause,
        _ => false,
    })
}
pub open spec fn invert(c: ExecutionExitCode) -> ExecutionExitCode {
    if c is Success { ExecutionExitCode::GeneralError } else { ExecutionExitCode::Success }
}
// what the slice must have done, given the events it produced
pub open spec fn pipeline_ok(t: Seq<Ev>, p: ast::Pipeline, outer: bool, r: ExecutionResult, status: u8, errexit_on: bool) -> bool {
    let exempt = outer || p.bang;
    &&& t.len() >= 2
    &&& t[0].node == Node::Spawn(p) && t[0].ok && t[0].suppress == exempt      // `!` and exempt callers suppress errexit inside
    &&& t[1].node == Node::Wait(p) && t[1].ok && t[1].suppress == exempt
    &&& ({
        // `!`: the status is negated (POSIX 2.9.2) -- unless a return or exit is passing through: those leave with their own
        // status before the negation applies (bash: f() { ! return 3; } returns 3); break/continue do get negated (bash)
        let unwinding = t[1].cf is ReturnFromFunctionOrScript || t[1].cf is ExitShell;
        let code = if p.bang && !unwinding { invert(t[1].code) } else { t[1].code };
        let base = ExecutionResult { next_control_flow: t[1].cf, exit_code: code };
        let trap_due = !(code is Success) && !exempt && !groups_only(p) && t[1].aux.handles_err;
        &&& status == u8_of(code)
        &&& t.len() == (if trap_due { 3int } else { 2int })
        &&& (trap_due ==> t[2].node == Node::TrapErr && t[2].ok)
        &&& r == (if exempt || groups_only(p) { base } else { errexit_spec(errexit_on, base) })   // errexit decided exactly once, only when not exempt and the failure is the command's own
    })
}
pub open spec fn pipeline_err(t: Seq<Ev>, p: ast::Pipeline, outer: bool) -> bool {
    let exempt = outer || p.bang;
    ||| (t.len() == 1 && t[0].node == Node::Spawn(p) && !t[0].ok && t[0].suppress == exempt)
    ||| (t.len() == 2 && t[0].node == Node::Spawn(p) && t[0].ok && t[1].node == Node::Wait(p) && !t[1].ok && t[1].suppress == exempt)
    ||| (t.len() == 3 && t[2].node == Node::TrapErr && !t[2].ok && !exempt && !groups_only(p))
}
