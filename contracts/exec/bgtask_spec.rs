// ---- C17: the body of the task a background and-or list runs in (interp.rs spawn_async_ao_list_in_task).
//  `wait` (JobManager::wait_all -> Job::wait -> JobTask::wait) propagates an Err of this task with `?`, abandoning the jobs it
//  has not awaited yet, and a JoinHandle that already yielded must not be awaited again.  So the property "wait returns only
//  after every job has finished" needs: the task reports the list's failure as a status (bash: a failing background job is
//  just a non-zero status), never as Err.
pub uninterp spec fn clone_spec(sh: Shell) -> Shell;
impl Clone for Shell {
    #[verifier::external_body]
    fn clone(&self) -> (r: Self) ensures r == clone_spec(*self) { unimplemented!() }
}
// the list, run in a given shell, yields a result determined by (list, shell before, params) — uninterpreted
pub uninterp spec fn exec_spec(l: ast::AndOrList, sh: Shell, suppress: bool) -> Result<(ExecutionControlFlow, ExecutionExitCode), (ExecutionControlFlow, ExecutionExitCode)>;
impl ast::AndOrList {
    #[verifier::external_body]
    pub fn execute(&self, shell: &mut Shell, params: &ExecutionParameters) -> (r: Result<ExecutionResult, error::Error>)
        ensures
            match exec_spec(*self, *old(shell), params.suppress_errexit) {
                Ok((cf, code)) => r is Ok && r->Ok_0.next_control_flow == cf && r->Ok_0.exit_code == code,
                Err(conv) => r is Err && into_result_spec(r->Err_0, *final(shell)) == conv,
            }
    { unimplemented!() }
}
pub uninterp spec fn into_result_spec(e: error::Error, sh: Shell) -> (ExecutionControlFlow, ExecutionExitCode);
impl error::Error {
    #[verifier::external_body]
    pub fn into_result(self, shell: &Shell) -> (r: ExecutionResult)
        ensures (r.next_control_flow, r.exit_code) == into_result_spec(self, *shell)
    { unimplemented!() }
}
pub open spec fn list_code(l: ast::AndOrList, sh: Shell, suppress: bool) -> ExecutionExitCode {
    match exec_spec(l, sh, suppress) { Ok((_, code)) => code, Err((_, code)) => code }
}
// the diagnostic written when the list failed: the handle and the write are stubs (the write may fail; its result is discarded today)
#[verifier::external_body] pub struct StderrHandle { _p: u8 }
impl ExecutionParameters { #[verifier::external_body] pub fn stderr(&self, shell: &Shell) -> StderrHandle { unimplemented!() } }
impl Shell { #[verifier::external_body] pub fn display_error(&self, w: &mut StderrHandle, e: &error::Error) -> (r: Result<(), error::Error>) { unimplemented!() } }
