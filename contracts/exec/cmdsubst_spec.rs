// ---- C03/C10: launching a command substitution (commands.rs invoke_command_in_subshell_and_get_output).
//  C03: the substitution runs in a copy of the shell; `set -e` is switched off in that copy unless inherit_errexit is set
//       (bash manual, Command Substitution / shopt inherit_errexit), and the caller's errexit *exemption* (the substitution sits in
//       an `if` condition, a non-final && / || operand, a `!` pipeline ...) is handed down unchanged: a substitution in an exempt
//       context stays exempt, one in a non-exempt context is not exempt.
//  C10: its standard output is the write end of the pipe the parent reads; the parent shell's own state is not touched.
pub mod error {
    use vstd::prelude::*;
    #[verifier::external_body]
    pub struct Error { _p: u8 }
}
#[verifier::external_body] pub struct OpenFile { _p: u8 }
#[verifier::external_body] pub struct PipeReader { _p: u8 }
#[verifier::external_body] pub struct PipeWriter { _p: u8 }
impl PipeReader { pub uninterp spec fn id(&self) -> int; }
impl PipeWriter { pub uninterp spec fn id(&self) -> int; }
impl OpenFile {
    pub uninterp spec fn pipe_id(&self) -> int;
    pub uninterp spec fn is_read_end(&self) -> bool;
    pub uninterp spec fn is_write_end(&self) -> bool;
}
impl vstd::std_specs::convert::FromSpecImpl<PipeReader> for OpenFile { open spec fn obeys_from_spec() -> bool { false } open spec fn from_spec(r: PipeReader) -> Self { arbitrary() } }
impl From<PipeReader> for OpenFile { #[verifier::external_body] fn from(r: PipeReader) -> (o: Self) ensures o.is_read_end(), o.pipe_id() == r.id() { unimplemented!() } }
impl vstd::std_specs::convert::FromSpecImpl<PipeWriter> for OpenFile { open spec fn obeys_from_spec() -> bool { false } open spec fn from_spec(r: PipeWriter) -> Self { arbitrary() } }
impl From<PipeWriter> for OpenFile { #[verifier::external_body] fn from(w: PipeWriter) -> (o: Self) ensures o.is_write_end(), o.pipe_id() == w.id() { unimplemented!() } }
// std::io::pipe() (rule R14: OS call -> stub): both ends of one pipe, or an error
#[verifier::external_body]
pub fn io_pipe() -> (r: Result<(PipeReader, PipeWriter), error::Error>)
    ensures r is Ok ==> r->Ok_0.0.id() == r->Ok_0.1.id()
{ unimplemented!() }
pub assume_specification<T, A: std::alloc::Allocator> [Vec::<T, A>::reserve_exact] (v: &mut Vec<T, A>, additional: usize)
    ensures final(v)@ == old(v)@;

pub type ShellFd = i32;
#[verifier::external_body] pub struct OpenFiles { _p: u8 }
impl OpenFiles {
    pub const STDIN_FD: ShellFd = 0;
    pub const STDOUT_FD: ShellFd = 1;
    pub uninterp spec fn view(&self) -> Map<ShellFd, OpenFile>;
    // contract of OpenFiles::set_fd as proved in unit U15 (restricted to what is needed here)
    #[verifier::external_body]
    pub fn set_fd(&mut self, fd: ShellFd, file: OpenFile) -> (r: Option<OpenFile>)
        ensures final(self)@ == old(self)@.insert(fd, file)
    { unimplemented!() }
}
pub enum ProcessGroupPolicy { NewProcessGroup, SameProcessGroup }
// projection of interp.rs ExecutionParameters (fields checked)
pub struct ExecutionParameters { pub open_files: OpenFiles, pub process_group_policy: ProcessGroupPolicy, pub suppress_errexit: bool }
impl Clone for ExecutionParameters { #[verifier::external_body] fn clone(&self) -> (r: Self) ensures r == *self { unimplemented!() } }
#[verifier::external_body] pub struct ShellRest { _p: u8 }
// projection of shell.rs Shell: `options()` / `options_mut()` are `&self.options` / `&mut self.options` (checked at extraction, R22)
pub struct Shell { pub options: RuntimeOptions, pub rest: ShellRest }
impl Clone for Shell { #[verifier::external_body] fn clone(&self) -> (r: Self) ensures r == *self { unimplemented!() } }
pub mod sys { pub mod async_pipe {
    use vstd::prelude::*;
    use super::super::*;
    #[verifier::external_body] pub struct AsyncPipeReader { _p: u8 }
    impl AsyncPipeReader {
        #[verifier::external_body]
        pub fn new(reader: PipeReader) -> (r: Result<Self, error::Error>) { unimplemented!() }
    }
} }
// R14: tokio::spawn(run_substitution_command(subshell, params, s)) -> a record of what the task was started with
pub struct Launch { pub shell: Shell, pub params: ExecutionParameters, pub command: String }
pub fn spawn_substitution(subshell: Shell, params: ExecutionParameters, s: String) -> (r: Launch)
    ensures r.shell == subshell, r.params == params, r.command == s
{ Launch { shell: subshell, params: params, command: s } }
