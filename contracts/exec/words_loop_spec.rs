// ---- prelude: the loop of SimpleCommand::execute_in_pipeline that walks prefix, command name and suffix.
//  C10: "evaluated left to right, so `2>&1 >f` differs from `>f 2>&1`": the redirections this command carries are set up one by one
//  in the order they are written, each on the descriptor table the previous ones left, interleaved with the expansion of the words
//  around them; a redirection that fails ends the command before anything after it is looked at.
//  C01: no word list (an alias with an empty value, a word expanding to nothing) makes the loop index past the end.
pub mod ast { use vstd::prelude::*;
#[verifier::external_body] pub struct IoRedirect { _p: u8 }
#[verifier::external_body] pub struct Word { _p: u8 }
#[verifier::external_body] pub struct Assignment { _p: u8 }
#[verifier::external_body] pub struct ProcessSubstitutionKind { _p: u8 }
#[verifier::external_body] pub struct SubshellCommand { _p: u8 }
