// ---- the stages of a pipeline (interp.rs spawn_pipeline_processes).
//  C03: "non-final pipeline stages ... are exempt" is decided by the *caller's* flag for the whole pipeline; whatever that flag
//       is, EVERY stage must receive it unchanged in its own execution parameters.
//  C02/C10 (pipelines): stage i's standard output is the write end of the pipe whose read end is stage i+1's standard input;
//       the first stage keeps the pipeline's stdin and the last its stdout; stages run in order; all spawned stages after the
//       first share a process group; only a single command, or the last one under lastpipe without job control, runs in the
//       current shell.
pub mod error {
    use vstd::prelude::*;
    #[verifier::external_body]
    pub struct Error { _p: u8 }
}
#[verifier::external_body] pub struct OpenFile { _p: u8 }
#[verifier::external_body] pub struct PipeReader { _p: u8 }
#[verifier::external_body] pub struct PipeWriter { _p: u8 }
impl PipeReader { pub uninterp spec fn id(&self) -> int; }
impl PipeWriter { pub uninterp spec fn id(&self) -> int; }
impl OpenFile {
    pub uninterp spec fn pipe_id(&self) -> int;
    pub uninterp spec fn is_read_end(&self) -> bool;
    pub uninterp spec fn is_write_end(&self) -> bool;
}
impl vstd::std_specs::convert::FromSpecImpl<PipeReader> for OpenFile { open spec fn obeys_from_spec() -> bool { false } open spec fn from_spec(r: PipeReader) -> Self { arbitrary() } }
impl From<PipeReader> for OpenFile { #[verifier::external_body] fn from(r: PipeReader) -> (o: Self) ensures o.is_read_end(), o.pipe_id() == r.id() { unimplemented!() } }
impl vstd::std_specs::convert::FromSpecImpl<PipeWriter> for OpenFile { open spec fn obeys_from_spec() -> bool { false } open spec fn from_spec(r: PipeWriter) -> Self { arbitrary() } }
impl From<PipeWriter> for OpenFile { #[verifier::external_body] fn from(w: PipeWriter) -> (o: Self) ensures o.is_write_end(), o.pipe_id() == w.id() { unimplemented!() } }
// std::io::pipe() (rule R14: OS call -> stub): both ends of one pipe, or an error
#[verifier::external_body]
pub fn io_pipe() -> (r: Result<(PipeReader, PipeWriter), error::Error>)
    ensures r is Ok ==> r->Ok_0.0.id() == r->Ok_0.1.id()
{ unimplemented!() }
pub assume_specification<T, A: std::alloc::Allocator> [Vec::<T, A>::reserve_exact] (v: &mut Vec<T, A>, additional: usize)
    ensures final(v)@ == old(v)@;

pub type ShellFd = i32;
#[verifier::external_body] pub struct OpenFiles { _p: u8 }
impl OpenFiles {
    pub const STDIN_FD: ShellFd = 0;
    pub const STDOUT_FD: ShellFd = 1;
    pub uninterp spec fn view(&self) -> Map<ShellFd, OpenFile>;
    // contract of OpenFiles::set_fd as proved in unit U15 (restricted to what is needed here)
    #[verifier::external_body]
    pub fn set_fd(&mut self, fd: ShellFd, file: OpenFile) -> (r: Option<OpenFile>)
        ensures final(self)@ == old(self)@.insert(fd, file)
    { unimplemented!() }
}
pub enum ProcessGroupPolicy { NewProcessGroup, SameProcessGroup }
// projection of interp.rs ExecutionParameters (fields checked)
pub struct ExecutionParameters { pub open_files: OpenFiles, pub process_group_policy: ProcessGroupPolicy, pub suppress_errexit: bool }
impl Clone for ExecutionParameters { #[verifier::external_body] fn clone(&self) -> (r: Self) ensures r == *self { unimplemented!() } }

// RuntimeOptions: the real struct of brush-core/src/options.rs is extracted by the unit
pub struct StageEv {
    pub node: ast::Command, pub suppress: bool, pub stdin: Option<OpenFile>, pub stdout: Option<OpenFile>,
    pub own_shell: bool, pub same_pg: bool, pub pgid_in: Option<i32>, pub ok: bool,
    pub returned: Result<ExecutionSpawnResult, error::Error>,     // what the stage handed back to the launcher
}
#[verifier::external_body] pub struct Shell { _p: u8 }
impl Shell {
    pub uninterp spec fn stages(&self) -> Seq<StageEv>;      // ghost log of stage launches
    pub uninterp spec fn opts(&self) -> RuntimeOptions;
    #[verifier::external_body] pub fn options(&self) -> (r: &RuntimeOptions) ensures *r == self.opts() { unimplemented!() }
}
impl Clone for Shell { #[verifier::external_body] fn clone(&self) -> (r: Self) { unimplemented!() } }
pub mod processes {
    use vstd::prelude::*;
    #[verifier::external_body] pub struct ChildProcess { _p: u8 }
    impl ChildProcess {
        pub uninterp spec fn pgid_spec(&self) -> Option<i32>;
        #[verifier::external_body] pub const fn pgid(&self) -> (r: Option<i32>) ensures r == self.pgid_spec() { unimplemented!() }
    }
}
// ExecutionResult and its kernel: extracted from results.rs by the unit (units/common.py results_items)
#[verifier::external_body] pub struct TaskHandle { _p: u8 }
// projection of results.rs ExecutionSpawnResult (variants checked)
pub enum ExecutionSpawnResult { Completed(ExecutionResult), StartedProcess(processes::ChildProcess), StartedTask(TaskHandle) }

pub open spec fn fd_of(m: Map<ShellFd, OpenFile>, fd: ShellFd) -> Option<OpenFile> { if m.contains_key(fd) { Some(m[fd]) } else { None } }
pub open spec fn parent_shell<'a>(c: &PipelineExecutionContext<'a>) -> &'a mut Shell {
    match c.shell { commands::ShellForCommand::ParentShell(s) => s, commands::ShellForCommand::OwnedShell { target, parent } => parent }
}
impl ast::Command {
    // a stage launch: one StageEv on the PARENT shell's log, describing what the stage was given
    #[verifier::external_body]
    pub fn execute_in_pipeline(&self, context: PipelineExecutionContext<'_>, params: ExecutionParameters) -> (r: Result<ExecutionSpawnResult, error::Error>)
        ensures ({
            let p0 = *parent_shell(&context);
            let p1 = *final(parent_shell(&context));
            &&& p1.stages() == p0.stages().push(p1.stages().last())
            &&& p1.stages().last().node == *self
            &&& p1.stages().last().suppress == params.suppress_errexit
            &&& p1.stages().last().stdin == fd_of(params.open_files@, 0)
            &&& p1.stages().last().stdout == fd_of(params.open_files@, 1)
            &&& p1.stages().last().own_shell == (context.shell is OwnedShell)
            &&& p1.stages().last().same_pg == (params.process_group_policy is SameProcessGroup)
            &&& p1.stages().last().pgid_in == context.process_group_id
            &&& p1.stages().last().ok == r.is_ok()
            &&& p1.stages().last().returned == r
            &&& (context.shell is OwnedShell ==> p1.opts() == p0.opts())      // a stage in its own shell cannot change the parent's options
        })
    { unimplemented!() }
}
pub open spec fn in_current_shell(n: int, i: int, o: RuntimeOptions) -> bool {
    n == 1 || (i == n - 1 && o.run_last_pipeline_cmd_in_current_shell && !o.enable_job_control)
}
pub open spec fn new_stages(old_s: Seq<StageEv>, new_s: Seq<StageEv>) -> Seq<StageEv> { new_s.skip(old_s.len() as int) }
// what must hold of stage launch t[i] of pipeline p (given the launches before it)
pub open spec fn stage_ok_at(t: Seq<StageEv>, i: int, p: ast::Pipeline, params: ExecutionParameters, o: RuntimeOptions) -> bool {
    let n = p.seq@.len() as int;
    &&& t[i].node == p.seq@[i]
    &&& t[i].suppress == params.suppress_errexit                              // C03: the exemption flag reaches every stage
    &&& t[i].own_shell == !in_current_shell(n, i, o)
    &&& ((i > 0 && t[i].own_shell) ==> t[i].same_pg)
    &&& (i == 0 ==> t[i].stdin == fd_of(params.open_files@, 0))               // first stage keeps the pipeline's stdin
    &&& (i == n - 1 ==> t[i].stdout == fd_of(params.open_files@, 1))          // last stage keeps the pipeline's stdout
    &&& (i < n - 1 ==> t[i].stdout is Some && t[i].stdout->Some_0.is_write_end())
    &&& (i > 0 ==> t[i].stdin is Some && t[i].stdin->Some_0.is_read_end() && t[i - 1].stdout is Some
            && t[i].stdin->Some_0.pipe_id() == t[i - 1].stdout->Some_0.pipe_id())   // adjacent stages share one pipe
}
// C02: a stage that ran in its own subshell cannot steer the shell that waits for it (`true | exit 3`, `true | break`): if it is
// already complete when the launch returns, only its exit status is kept.  (A builtin started as a task in an owned shell is
// stripped inside that task: commands.rs execute_via_builtin_in_owned_shell, not covered here.)
pub open spec fn result_confined(e: StageEv, r: ExecutionSpawnResult) -> bool {
    &&& (e.own_shell && r is Completed) ==> r->Completed_0.next_control_flow is Normal
    // C02 / C16: a stage run in THIS shell (a lone command; the last stage under lastpipe) is this shell: what it asks for — exit,
    // return, break — is handed on exactly as it came back
    &&& (!e.own_shell && e.returned is Ok) ==> r == e.returned->Ok_0
}
// the first k stage launches t[0..k) of pipeline p are as specified
pub open spec fn stages_ok(t: Seq<StageEv>, k: int, p: ast::Pipeline, params: ExecutionParameters, o: RuntimeOptions) -> bool {
    &&& t.len() == k && 0 <= k <= p.seq@.len()
    &&& forall|i: int| 0 <= i < k ==> #[trigger] stage_ok_at(t, i, p, params, o)
}
pub proof fn lemma_stages_push(t: Seq<StageEv>, e: StageEv, p: ast::Pipeline, params: ExecutionParameters, o: RuntimeOptions)
    requires stages_ok(t, t.len() as int, p, params, o), t.len() < p.seq@.len(), stage_ok_at(t.push(e), t.len() as int, p, params, o),
    ensures stages_ok(t.push(e), t.len() as int + 1, p, params, o),
{
    let t2 = t.push(e);
    assert forall|i: int| 0 <= i < t.len() + 1 implies #[trigger] stage_ok_at(t2, i, p, params, o) by {
        if i < t.len() { assert(stage_ok_at(t, i, p, params, o)); assert(t2[i] == t[i]); if i > 0 { assert(t2[i - 1] == t[i - 1]); } }
    }
}

#[verifier::external_body] pub fn exit_code_of_error(e: &error::Error) -> ExecutionExitCode { unimplemented!() }     // From<&Error> for ExecutionExitCode
