// ---- C01/C06: ${x^pat} / ${x,pat}: WordExpander::pattern_to_first_char replaces the first character by the first character of
//  its case mapping and keeps the rest of the value unchanged (bash manual 3.5.3: "^ converts the first character ... to
//  uppercase").  A case mapping can change the encoded length (ß -> S, ı -> I), so "the rest" must be taken by characters.
pub mod error {
    use vstd::prelude::*;
    #[verifier::external_body]
    pub struct Error { _p: u8 }
}
pub mod patterns {
    use vstd::prelude::*;
    use super::*;
    #[verifier::external_body]
    pub struct Pattern { _p: u8 }
    impl Pattern {
        pub uninterp spec fn empty_spec(&self) -> bool;
        pub uninterp spec fn matches_spec(&self, s: Seq<char>) -> Result<bool, error::Error>;
        #[verifier::external_body]
        pub fn is_empty(&self) -> (r: bool) ensures r == self.empty_spec() { unimplemented!() }
        #[verifier::external_body]
        pub fn exactly_matches(&self, value: &str) -> (r: Result<bool, error::Error>) ensures r == self.matches_spec(value@) { unimplemented!() }
    }
}
// R14: `result.extend(s.chars().skip(1))` (iterator adapters) -> stub: appends every character of s but the first
#[verifier::external_body]
pub fn string_extend_chars_skip1(result: &mut String, s: &String)
    ensures final(result)@ == old(result)@ + s@.skip(1)
{ result.extend(s.chars().skip(1)); }
#[verifier::external_body]
pub fn str_first_char(s: &String) -> (r: Option<char>)
    ensures s@.len() == 0 ==> r is None, s@.len() > 0 ==> r == Some(s@[0])
{ s.chars().next() }
pub broadcast axiom fn axiom_char_to_string(c: char, s: String)
    requires #[trigger] to_string_from_display_ensures::<char>(&c, s),
    ensures s@ == seq![c];
pub open spec fn applicable(s: Seq<char>, pattern: Option<&patterns::Pattern>) -> Result<bool, error::Error> {
    if s.len() == 0 { Ok(false) } else { match pattern { Some(p) => if p.empty_spec() { Ok(true) } else { p.matches_spec(seq![s[0]]) }, None => Ok(true) } }
}
