// ---- C06 ${v:=w} / ${a[k]:=w}: the store half of the assigning default (expansion.rs assign_to_parameter).
//  bash manual, Arrays: "declare -A name" makes name an associative array (also before any element is assigned); the subscript of an
//  associative array is a STRING key (it undergoes word expansion, not arithmetic evaluation); the subscript of anything else is an
//  arithmetic expression.  So the decision must follow the variable's declared kind, set or not.
pub mod error {
    use vstd::prelude::*;
    pub enum ErrorKind { CannotAssignToSpecialParameter, Other }
    pub struct Error { pub kind: ErrorKind }
    impl vstd::std_specs::convert::FromSpecImpl<ErrorKind> for Error { open spec fn obeys_from_spec() -> bool { true } open spec fn from_spec(k: ErrorKind) -> Self { Error { kind: k } } }
    impl From<ErrorKind> for Error { fn from(k: ErrorKind) -> Self { Error { kind: k } } }
}
#[verifier::external_body] pub struct AssocMap { _p: u8 }
#[verifier::external_body] pub struct IndexedMap { _p: u8 }
#[verifier::external_body] pub struct DynamicValueGetter { _p: u8 }
#[verifier::external_body] pub struct DynamicValueSetter { _p: u8 }
#[verifier::external_body] pub struct SpecialParameter { _p: u8 }
pub struct ShellVariable { pub val: ShellValue, pub rest: u8 }
impl ShellVariable { pub fn value(&self) -> (r: &ShellValue) ensures *r == self.val { &self.val } }
pub open spec fn is_associative(v: ShellValue) -> bool {
    v is AssociativeArray || (v is Unset && v->Unset_0 is AssociativeArray)
}
pub struct IndexEval { pub index: Seq<char>, pub as_string_key: bool }
#[verifier::external_body] pub struct Shell { _p: u8 }
pub struct WordExpander<'a> { pub shell: &'a mut Shell, pub evals: Ghost<Seq<IndexEval>> }
pub uninterp spec fn lookup_spec(sh: Shell, name: Seq<char>) -> Option<ShellVariable>;
// R14 stubs
#[verifier::external_body]
pub fn env_get<'b>(shell: &'b Shell, name: &String) -> (r: Option<(u8, &'b ShellVariable)>)
    ensures match lookup_spec(*shell, name@) { Some(v) => r is Some && *(r->Some_0.1) == v, None => r is None }
{ unimplemented!() }
impl<'a> WordExpander<'a> {
    // expand_array_index(index, for_set_associative_array): word expansion of the subscript when the flag is set, arithmetic otherwise
    #[verifier::external_body]
    pub fn expand_array_index(&mut self, index: &str, for_set_associative_array: bool) -> (r: Result<String, error::Error>)
        ensures final(self).evals@ == old(self).evals@.push(IndexEval { index: index@, as_string_key: for_set_associative_array }),
            *final(self).shell == *old(self).shell,
    { unimplemented!() }
}
#[verifier::external_body]
pub fn env_update_or_add_array_element(shell: &mut Shell, name: &String, index: String, value: String) -> (r: Result<(), error::Error>) { unimplemented!() }
#[verifier::external_body]
pub fn env_update_or_add_scalar(shell: &mut Shell, name: &String, value: String, lookup: env::EnvironmentLookup, scope: env::EnvironmentScope) -> (r: Result<(), error::Error>)
    requires
        //@ expansion.rs:assign_to_parameter:scalar-writer | C06,C09 the-default-is-assigned-to-the-variable-visible-here-and-a-new-one-is-global
        lookup is Anywhere && scope is Global,
{ unimplemented!() }
pub mod env { use vstd::prelude::*;
    // projections of env.rs EnvironmentLookup / EnvironmentScope (variants checked at extraction)
    pub enum EnvironmentLookup { Anywhere, OnlyInGlobal, OnlyInCurrentLocal, OnlyInLocal }
    pub enum EnvironmentScope { Local, Global, Command }
}
