// ---- C06: "${a[-k]}": bash manual, Arrays: "negative indices count back from the end of the array, and an index of -1
//      references the last element" — "the end" being one past the highest index in use (sparse arrays!).
//      C07/C01: x+=n under the integer attribute is wrapping 64-bit addition, never a panic.
pub uninterp spec fn parse_or_0(s: Seq<char>) -> i64;       // str::parse::<i64>().unwrap_or(0): an abstract function of the text
// rule R14: the call chain `E.parse::<i64>().unwrap_or(0)` (FromStr / ParseIntError / Result::unwrap_or have no Verus
// support) is replaced by this stub
#[verifier::external_body]
pub fn parse_i64_or_0(s: &str) -> (r: i64) ensures r == parse_or_0(s@) { unimplemented!() }

pub assume_specification<K, V, A: std::alloc::Allocator + Clone> [std::collections::BTreeMap::<K, V, A>::last_key_value] (m: &std::collections::BTreeMap<K, V, A>) -> (r: Option<(&K, &V)>)
    where K: Ord
    ensures r is None <==> btree_keys(m).len() == 0,
        r is Some ==> btree_keys(m).contains(*r->Some_0.0) && btree_is_max(m, *r->Some_0.0);
pub uninterp spec fn btree_keys<K, V, A: std::alloc::Allocator + Clone>(m: &std::collections::BTreeMap<K, V, A>) -> Set<K>;
pub uninterp spec fn btree_is_max<K, V, A: std::alloc::Allocator + Clone>(m: &std::collections::BTreeMap<K, V, A>, k: K) -> bool;
// meaning of "is the largest key" at the instance used (u64 keys)
pub broadcast axiom fn axiom_btree_max_u64<V, A: std::alloc::Allocator + Clone>(m: &std::collections::BTreeMap<u64, V, A>, k: u64)
    ensures #[trigger] btree_is_max(m, k) == (forall|j: u64| btree_keys(m).contains(j) ==> j <= k);

pub mod error {
    use vstd::prelude::*;
    pub enum ErrorKind { ArrayIndexOutOfRange(String) }     // projection (variant checked)
    #[verifier::external_body]
    pub struct Error { _p: u8 }
    impl vstd::std_specs::convert::FromSpecImpl<ErrorKind> for Error {
        open spec fn obeys_from_spec() -> bool { false }
        open spec fn from_spec(k: ErrorKind) -> Self { arbitrary() }
    }
    impl From<ErrorKind> for Error { #[verifier::external_body] fn from(k: ErrorKind) -> Self { unimplemented!() } }
}
// one past the highest index in use (0 for an empty array)
pub open spec fn past_end(keys: Set<u64>, k: u64) -> bool {
    if keys.len() == 0 { k == 0 } else { exists|m: u64| keys.contains(m) && (forall|j: u64| keys.contains(j) ==> j <= m) && k == m + 1 }
}
// ---- C07: "integer-attribute assignments ... evaluate" — the value stored in a variable with the integer attribute is the value of the
//  assigned text read as an arithmetic expression (bash manual, declare -i: "arithmetic evaluation is performed when the variable is
//  assigned a value").  arith_value is that evaluation (abstract); for a plain decimal literal without leading zeros it is the number
//  itself.
pub uninterp spec fn arith_value(t: Seq<char>) -> i64;
pub uninterp spec fn int_text(v: i64) -> Seq<char>;
pub open spec fn is_digit_char(c: char) -> bool { '0' <= c <= '9' }
pub open spec fn plain_decimal(t: Seq<char>) -> bool {
    let d = if t.len() > 0 && t[0] == '-' { t.subrange(1, t.len() as int) } else { t };
    d.len() > 0 && (d.len() == 1 || d[0] != '0') && (forall|i: int| 0 <= i < d.len() ==> is_digit_char(#[trigger] d[i]))
}
pub broadcast axiom fn axiom_plain_decimal_evaluates_to_itself(t: Seq<char>)
    requires plain_decimal(t), ensures #[trigger] arith_value(t) == parse_or_0(t);
// R14: i64::to_string -> stub
#[verifier::external_body]
pub fn i64_to_string(v: i64) -> (r: String) ensures r@ == int_text(v) { unimplemented!() }
// R14: `E.parse::<u64>().unwrap_or(0)`
pub uninterp spec fn parse_u64_or_0_spec(s: Seq<char>) -> u64;
#[verifier::external_body]
pub fn parse_u64_or_0(s: &str) -> (r: u64) ensures r == parse_u64_or_0_spec(s@) { unimplemented!() }
