// ---- prelude: the scalar reading of a value (variables.rs try_get_cow_str_without_dynamic_support and its wrappers).
//  bash manual, Arrays: "Referencing an array variable without a subscript is equivalent to referencing the array with a subscript
//  of 0."  So `$a`, `${#a}`, `${a:-w}`, `${a#p}` .. on an array see element 0 (key "0" of an associative array) — and nothing at all
//  (an unset parameter) when that element does not exist, whatever other elements there are.  C06, C05.
pub struct DynamicValueGetter { pub u: u8 }      // projection: fn pointers are not called by the functions of this unit
pub struct DynamicValueSetter { pub u: u8 }
// the indexed representation is read through vstd's BTreeMap specification (view: Map<u64, String>; get, values, next as specified
// there); the associative one is looked up with a &str key (Borrow), which vstd's get takes only under a key-model precondition, so
// that call goes through a stub (R14) with the abstract contents assoc_view
pub uninterp spec fn assoc_view(m: &BTreeMap<String, String>) -> Map<Seq<char>, Seq<char>>;
#[verifier::external_body]
pub fn btree_get_by_str<'a>(m: &'a BTreeMap<String, String>, k: &str) -> (r: Option<&'a String>)
    ensures (r is Some) == assoc_view(m).contains_key(k@), r is Some ==> r->Some_0@ == assoc_view(m)[k@]
{ unimplemented!() }
// what the value reads as when used without a subscript
pub open spec fn scalar_view(v: ShellValue) -> Option<Seq<char>> {
    match v {
        ShellValue::Unset(_) => None,
        ShellValue::String(s) => Some(s@),
        ShellValue::AssociativeArray(m) => if assoc_view(&m).contains_key(seq!['0']) { Some(assoc_view(&m)[seq!['0']]) } else { None },
        ShellValue::IndexedArray(m) => if m@.contains_key(0u64) { Some(m@[0u64]@) } else { None },
        ShellValue::Dynamic { .. } => None,
    }
}
// R17 / R14: Cow<str> erased to String; `X.map(|s| Cow::Borrowed(s.as_str()))` -> vx_map_owned(X); Cow::Borrowed(s.as_str()) -> vx_str_owned(s.as_str())
#[verifier::external_body]
pub fn vx_map_owned(o: Option<&String>) -> (r: Option<String>)
    ensures (r is Some) == (o is Some), r is Some ==> r->Some_0@ == o->Some_0@
{ unimplemented!() }
#[verifier::external_body]
pub fn vx_str_owned(s: &str) -> (r: String) ensures r@ == s@ { unimplemented!() }
#[verifier::external_body]
pub fn vx_empty_string() -> (r: String) ensures r@ == Seq::<char>::empty() { unimplemented!() }
