// ---- prelude (C09): "a readonly variable's value and attributes cannot be changed or removed by any construct" and "function
//  locals ... restoring whatever they shadowed".
//  (a) every writer of a ShellVariable's value — assign, assign_at_index, unset_index — refuses a readonly variable BEFORE anything
//      else, whether or not the variable has a value yet (`readonly v; v=1` fails in bash);
//  (b) `declare` (without -g) inside a function, and `local`, create a function-local variable: the name is looked up among the
//      CURRENT function's locals only, so a global or a caller's local of the same name is shadowed, never modified.
pub mod error {
    use vstd::prelude::*;
    pub enum ErrorKind { ReadonlyVariable }                    // projection of error.rs ErrorKind (variant checked)
    #[verifier::external_body] pub struct Error { _p: u8 }
    impl vstd::std_specs::convert::FromSpecImpl<ErrorKind> for Error {
        open spec fn obeys_from_spec() -> bool { false }
        open spec fn from_spec(k: ErrorKind) -> Self { arbitrary() }
    }
    impl From<ErrorKind> for Error { #[verifier::external_body] fn from(k: ErrorKind) -> Self { unimplemented!() } }
}
#[verifier::external_body] pub struct ShellValue { _p: u8 }
impl ShellValue {
    pub uninterp spec fn set_spec(&self) -> bool;
    #[verifier::external_body] pub fn is_set(&self) -> (r: bool) ensures r == self.set_spec() { unimplemented!() }
}
pub struct ShellVariable { pub value: ShellValue, pub readonly: bool }       // projection of variables.rs ShellVariable (both fields checked)
// declare.rs
pub struct DeclareCommand { pub create_global: bool }                          // projection (field checked)
#[verifier::external_body] pub struct Shell { _p: u8 }
impl Shell {
    pub uninterp spec fn in_fn(&self) -> bool;
    #[verifier::external_body] pub fn in_function(&self) -> (r: bool) ensures r == self.in_fn() { unimplemented!() }
}
pub struct ExecutionContext<'a> { pub shell: &'a Shell }      // projection: the slice only reads the shell
pub open spec fn creates_local(verb: DeclareVerb, in_fn: bool, create_global: bool) -> bool {
    verb is Local || (verb is Declare && in_fn && !create_global)
}
