// ---- prelude (C09 / C06): the plain (non-appending) half of ShellVariable::assign (variables.rs).
//  bash manual, Arrays: "assignment to an array variable without a subscript is equivalent to assigning to subscript 0" — for an array
//  that has elements and for one that was only declared (`declare -a a; a=x` leaves `declare -a a=([0]="x")`, the array attribute stays);
//  an array literal replaces the value and keeps the kind of array the variable is (indexed unless it is associative).
pub mod error { use vstd::prelude::*; #[verifier::external_body] pub struct Error { _p: u8 } }
#[verifier::external_body] pub struct IdxMap { _p: u8 }
#[verifier::external_body] pub struct AssocMap { _p: u8 }
#[verifier::external_body] pub struct DynGetter { _p: u8 }
#[verifier::external_body] pub struct DynSetter { _p: u8 }
pub enum ShellValue {                                                         // projection of variables.rs ShellValue (variants checked)
    Unset(ShellValueUnsetType), String(String), AssociativeArray(AssocMap), IndexedArray(IdxMap), Dynamic { getter: DynGetter, setter: DynSetter },
}
pub uninterp spec fn indexed_from(l: ArrayLiteral) -> ShellValue;
pub uninterp spec fn assoc_from(l: ArrayLiteral) -> Result<ShellValue, error::Error>;
impl ShellValue {
    #[verifier::external_body] pub fn indexed_array_from_literals(l: ArrayLiteral) -> (r: Self) ensures r == indexed_from(l) { unimplemented!() }
    #[verifier::external_body] pub fn associative_array_from_literals(l: ArrayLiteral) -> (r: Result<Self, error::Error>) ensures r == assoc_from(l) { unimplemented!() }
}
pub enum Call { AtIndex(Seq<char>, Seq<char>, bool) }
pub struct ShellVariable { pub value: ShellValue, pub calls: Ghost<Seq<Call>>, pub u: u8 }       // projection + ghost log of element writes
impl ShellVariable {
    // assign_at_index (element writer; its readonly guard: U34; negative subscripts: U8): logged, result abstract
    #[verifier::external_body]
    pub fn assign_at_index(&mut self, array_index: String, value: String, append: bool) -> (r: Result<(), error::Error>)
        ensures final(self).calls@ == old(self).calls@.push(Call::AtIndex(array_index@, value@, append))
    { unimplemented!() }
}
pub open spec fn is_array_kind(v: ShellValue) -> bool {
    v is IndexedArray || v is AssociativeArray || (v is Unset && (v->Unset_0 is IndexedArray || v->Unset_0 is AssociativeArray))
}
pub open spec fn is_assoc_kind(v: ShellValue) -> bool { v is AssociativeArray || (v is Unset && v->Unset_0 is AssociativeArray) }
#[verifier::external_body] pub fn vx_string_from(s: &str) -> (r: String) ensures r@ == s@ { unimplemented!() }
