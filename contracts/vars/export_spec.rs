// ---- prelude (C09): "exactly the exported variables reach child processes with their current values".
//  (a) the `export` builtin: `export NAME`, `export NAME=v`, `export NAME+=v` leave NAME exported (with -n: not exported), whichever
//      path handles the word; only NAME is touched;
//  (b) compose_std_command: every exported variable that is set — to whatever value, the empty string included — is put into the
//      child's environment under its name with its current value; a declared-but-unset one is not (bash: `export E=; env` shows E=).
pub mod brush_core { use vstd::prelude::*; #[verifier::external_body] pub struct Error { _p: u8 } }
pub mod variables { use vstd::prelude::*; #[verifier::external_body] pub struct ShellValueLiteral { _p: u8 } }
pub struct ExecutionResult { pub ok: bool, pub fell_through: bool }
impl ExecutionResult { pub fn success() -> (r: Self) ensures !r.fell_through { Self { ok: true, fell_through: false } } }
// the slice ends where the original statement falls through to the code after it
pub fn vx_fell_through() -> (r: ExecutionResult) ensures r.fell_through { ExecutionResult { ok: true, fell_through: true } }
pub struct ExportCommand { pub names_are_functions: bool, pub unexport: bool }          // projection (fields checked)
pub struct Assignment { pub append: bool }                                                // projection (field checked)
#[verifier::external_body] pub struct ShellValue { _p: u8 }
pub struct ShellVariable { pub value: ShellValue, pub exported: bool, pub readonly: bool }   // projection (fields checked)
impl ShellVariable {
    // variables.rs ShellVariable::assign: value writer; ASSUMED to leave the attributes alone (its readonly guard: unit U34)
    #[verifier::external_body]
    pub fn assign(&mut self, value: variables::ShellValueLiteral, append: bool) -> (r: Result<(), brush_core::Error>)
        ensures final(self).exported == old(self).exported, final(self).readonly == old(self).readonly
    { unimplemented!() }
}
pub enum EnvironmentScope { Local, Global, Command }
pub struct Env { pub vars: Ghost<Map<Seq<char>, ShellVariable>>, pub u: u8 }           // abstract contents: the variable visible under each name
impl Env {
    // env.rs get_mut: the visible variable of that name, if any (lookup order: unit U13); what the caller does to it is the only change
    #[verifier::external_body]
    pub fn get_mut<'a>(&'a mut self, name: &str) -> (r: Option<(EnvironmentScope, &'a mut ShellVariable)>)
        ensures
            (r is None) == !old(self).vars@.contains_key(name@),
            r is None ==> final(self).vars@ == old(self).vars@,
            r is Some ==> *r->Some_0.1 == old(self).vars@[name@] && final(self).vars@ == old(self).vars@.insert(name@, *final(r->Some_0.1)),
    { unimplemented!() }
}
pub struct Shell { pub env: Env, pub u: u8 }
impl Shell {
    pub fn env_mut(&mut self) -> (r: &mut Env) ensures *r == old(self).env, *final(r) == final(self).env, final(self).u == old(self).u { &mut self.env }
}
pub struct ExecutionContext<'a> { pub shell: &'a mut Shell }
// ---- (b)
impl ShellValue {
    pub uninterp spec fn set_spec(&self) -> bool;
    pub uninterp spec fn text(&self) -> Seq<char>;
    #[verifier::external_body] pub fn is_set(&self) -> (r: bool) ensures r == self.set_spec() { unimplemented!() }
    // R17: Cow<str> erased to String
    #[verifier::external_body] pub fn to_cow_str(&self, shell: &Shell) -> (r: String) ensures r@ == self.text() { unimplemented!() }
}
pub struct Command { pub env: Ghost<Map<Seq<char>, Seq<char>>>, pub u: u8 }             // std::process::Command: the environment being built
impl Command {
    #[verifier::external_body]
    pub fn env(&mut self, k: &str, v: &str) ensures final(self).env@ == old(self).env@.insert(k@, v@), final(self).u == old(self).u { unimplemented!() }
}
pub struct ChildContext<'a> { pub shell: &'a Shell }
