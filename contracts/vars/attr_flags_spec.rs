// ---- prelude: ShellVariable::attribute_flags (brush-core/src/variables.rs): the letters `declare -p` and `${v@A}` print after `declare -`.
//  C13: the text recreates "values, keys and attributes" — so every attribute the variable has must appear, independently of the
//  others, and none it does not have (bash's order: a A c i n r l t u x).
#[verifier::external_body] pub struct Shell { _p: u8 }
#[verifier::external_body] pub struct ShellValue { _p: u8 }
impl ShellValue {
    pub uninterp spec fn indexed(&self) -> bool;
    pub uninterp spec fn assoc(&self) -> bool;
    #[verifier::external_body] pub fn is_indexed_array(&self) -> (r: bool) ensures r == self.indexed() { unimplemented!() }
    #[verifier::external_body] pub fn is_associative_array(&self) -> (r: bool) ensures r == self.assoc() { unimplemented!() }
}
pub open spec fn opt(c: char, b: bool) -> Seq<char> { if b { seq![c] } else { Seq::<char>::empty() } }
pub open spec fn flags_spec(v: ShellVariable, val: ShellValue) -> Seq<char> {
    opt('a', val.indexed()) + opt('A', val.assoc()) + opt('c', v.transform_on_update is Capitalize) + opt('i', v.treat_as_integer)
        + opt('n', v.treat_as_nameref) + opt('r', v.readonly) + opt('l', v.transform_on_update is Lowercase) + opt('t', v.trace)
        + opt('u', v.transform_on_update is Uppercase) + opt('x', v.exported)
}
pub open spec fn letter(v: ShellVariable, val: ShellValue, k: int) -> Seq<char> {
    if k == 0 { opt('a', val.indexed()) } else if k == 1 { opt('A', val.assoc()) } else if k == 2 { opt('c', v.transform_on_update is Capitalize) }
    else if k == 3 { opt('i', v.treat_as_integer) } else if k == 4 { opt('n', v.treat_as_nameref) } else if k == 5 { opt('r', v.readonly) }
    else if k == 6 { opt('l', v.transform_on_update is Lowercase) } else if k == 7 { opt('t', v.trace) }
    else if k == 8 { opt('u', v.transform_on_update is Uppercase) } else { opt('x', v.exported) }
}
pub open spec fn flags_upto(v: ShellVariable, val: ShellValue, k: int) -> Seq<char> decreases k { if k <= 0 { Seq::<char>::empty() } else { flags_upto(v, val, k - 1) + letter(v, val, k - 1) } }
pub proof fn lemma_flags_all(v: ShellVariable, val: ShellValue) ensures flags_upto(v, val, 10) =~= flags_spec(v, val) { reveal_with_fuel(flags_upto, 11); }
impl ShellVariable {
    pub uninterp spec fn resolved(&self, shell: Shell) -> ShellValue;
    // resolve_value: the value itself, or what a dynamic variable's getter returns (NOT verified)
    #[verifier::external_body] pub fn resolve_value(&self, shell: &Shell) -> (r: ShellValue) ensures r == self.resolved(*shell) { unimplemented!() }
}
