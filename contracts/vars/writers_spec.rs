// ---- prelude (C09 / C07): two writers of variables.
//  (a) arithmetic.rs assign: `(( x = v ))` and `(( a[i] = v ))` write to the variable that is VISIBLE under the name (dynamic scoping:
//      a local of the running function or of a caller), creating a global only when there is none — for a scalar and for an array
//      element alike.
//  (b) variables.rs ShellVariable::assign, the plain (non-appending) part: a string assigned to an array — also one that was only
//      declared (`declare -a a; a=x`) — becomes its element 0, the array attribute stays (bash manual, Arrays: "assignment to an array
//      variable without a subscript is equivalent to assigning to subscript 0").
pub mod error { use vstd::prelude::*; #[verifier::external_body] pub struct Error { _p: u8 } }
pub enum EvalError { FailedToUpdateEnvironment, Other }                         // projection (variant checked)
pub mod env {
    pub use super::{EnvironmentLookup, EnvironmentScope};
}
pub mod ast {
    use vstd::prelude::*;
    #[verifier::external_body] pub struct ArithmeticExpr { _p: u8 }
    pub enum ArithmeticTarget { Variable(String), ArrayElement(String, Box<ArithmeticExpr>) }       // the real enum (variants checked)
}
pub uninterp spec fn int_text(v: i64) -> Seq<char>;
#[verifier::external_body] pub fn i64_to_string(v: i64) -> (r: String) ensures r@ == int_text(v) { unimplemented!() }
pub struct NoUpdater { pub u: u8 }
pub fn vx_no_updater() -> NoUpdater { NoUpdater { u: 0 } }                     // R14: the closure `|_| Ok(())`
pub enum Write {
    Scalar { name: Seq<char>, text: Seq<char>, lookup: EnvironmentLookup, scope: EnvironmentScope },
    Element { name: Seq<char>, index: Seq<char>, text: Seq<char>, lookup: EnvironmentLookup, scope: EnvironmentScope },
}
pub mod variables { use vstd::prelude::*; pub enum ShellValueLiteral { Scalar(String), Other(u8) } }
pub struct Env { pub writes: Ghost<Seq<Write>>, pub u: u8 }
impl Env {
    // env.rs update_or_add / update_or_add_array_element: look the name up under the policy, write there, create in the scope given
    // when there is none (NOT verified here; unit U13 covers get / add)
    #[verifier::external_body]
    pub fn update_or_add(&mut self, name: &str, value: variables::ShellValueLiteral, updater: NoUpdater, lookup_policy: EnvironmentLookup, scope_if_creating: EnvironmentScope) -> (r: Result<(), error::Error>)
        ensures value is Scalar ==> final(self).writes@ == old(self).writes@.push(Write::Scalar { name: name@, text: value->Scalar_0@, lookup: lookup_policy, scope: scope_if_creating })
    { unimplemented!() }
    #[verifier::external_body]
    pub fn update_or_add_array_element(&mut self, name: &str, index: String, value: String, updater: NoUpdater, lookup_policy: EnvironmentLookup, scope_if_creating: EnvironmentScope) -> (r: Result<(), error::Error>)
        ensures final(self).writes@ == old(self).writes@.push(Write::Element { name: name@, index: index@, text: value@, lookup: lookup_policy, scope: scope_if_creating })
    { unimplemented!() }
}
pub struct Shell { pub env: Env, pub u: u8 }
impl Shell {
    pub fn env_mut(&mut self) -> (r: &mut Env) ensures *r == old(self).env, *final(r) == final(self).env, final(self).u == old(self).u { &mut self.env }
}
pub uninterp spec fn index_value(e: ast::ArithmeticExpr, depth: u32) -> Result<i64, EvalError>;
#[verifier::external_body]
pub fn eval_expr_impl(e: &ast::ArithmeticExpr, shell: &mut Shell, depth: u32) -> (r: Result<i64, EvalError>)
    ensures r == index_value(*e, depth), final(shell).env.writes@ == old(shell).env.writes@
{ unimplemented!() }
// R14: `.map_err(|_err| EvalError::FailedToUpdateEnvironment)`
#[verifier::external_body]
pub fn vx_update_err(r: Result<(), error::Error>) -> (o: Result<(), EvalError>) ensures (o is Ok) == (r is Ok) { unimplemented!() }
