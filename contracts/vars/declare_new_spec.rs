// ---- prelude (C09): the branch of DeclareCommand::process_declaration (declare.rs) that creates a variable.
//  "Function locals ... restoring whatever they shadowed"; "exactly the exported variables reach child processes with their current
//  values": a new local starts out with the export attribute of the variable it shadows (bash: `export x=1; f() { local x=2; env; }`
//  shows x=2), then the flags of the declaration apply; it is created in the local scope (global otherwise).
pub mod brush_core { use vstd::prelude::*; #[verifier::external_body] pub struct Error { _p: u8 } }
pub enum ShellValueUnsetType { Untyped, AssociativeArray, IndexedArray }          // the real enum (variants checked)
pub enum ShellValue { Unset(ShellValueUnsetType), Other(u8) }                       // projection
impl ShellValue {
    pub uninterp spec fn array_spec(&self) -> bool;
    #[verifier::external_body] pub fn is_array(&self) -> (r: bool) ensures r == self.array_spec() { unimplemented!() }
}
#[verifier::external_body] pub struct ShellValueLiteral { _p: u8 }
pub struct ShellVariable { pub value: ShellValue, pub exported: bool, pub readonly: bool }   // projection (fields checked)
impl ShellVariable {
    #[verifier::external_body]
    pub fn new(value: ShellValue) -> (r: Self) ensures r.value == value, !r.exported, !r.readonly { unimplemented!() }
    pub fn value(&self) -> (r: &ShellValue) ensures *r == self.value { &self.value }
    pub fn is_exported(&self) -> (r: bool) ensures r == self.exported { self.exported }
    pub fn export(&mut self) -> (r: &mut Self)
        ensures r.exported && r.readonly == old(self).readonly && r.value == old(self).value && *final(self) == *final(r)
    { self.exported = true; self }
    #[verifier::external_body]
    pub fn assign(&mut self, value: ShellValueLiteral, append: bool) -> (r: Result<(), brush_core::Error>)
        ensures final(self).exported == old(self).exported, final(self).readonly == old(self).readonly
    { unimplemented!() }
}
pub enum EnvironmentScope { Local, Global, Command }
pub struct Env {
    pub visible_exported: Ghost<Set<Seq<char>>>,                                   // names whose visible variable is exported
    pub adds: Ghost<Seq<(Seq<char>, ShellVariable, EnvironmentScope)>>,
    pub u: u8,
}
impl Env {
    #[verifier::external_body]
    pub fn add(&mut self, name: String, var: ShellVariable, target_scope: EnvironmentScope) -> (r: Result<(), brush_core::Error>)
        ensures final(self).adds@ == old(self).adds@.push((name@, var, target_scope)), final(self).visible_exported == old(self).visible_exported
    { unimplemented!() }
}
pub struct RuntimeOptions { pub export_variables_on_modification: bool }
pub struct Shell { pub env: Env, pub options: RuntimeOptions }
impl Shell {
    pub fn env_mut(&mut self) -> (r: &mut Env) ensures *r == old(self).env, *final(r) == final(self).env, final(self).options == old(self).options { &mut self.env }
}
pub struct ExecutionContext { pub shell: Shell }                 // projection (the shell by value instead of behind a &mut: same field paths)
// R14: `context.shell.env().get(NAME).is_some_and(|(_, shadowed)| shadowed.is_exported())` -> stub
#[verifier::external_body]
pub fn vx_visible_is_exported(context: &ExecutionContext, name: &str) -> (r: bool) ensures r == context.shell.env.visible_exported@.contains(name@) { unimplemented!() }
pub struct ArrayFlag { pub given: bool }
impl ArrayFlag { pub fn is_some(&self) -> (r: bool) ensures r == self.given { self.given } }
pub struct DeclareCommand { pub make_indexed_array: ArrayFlag, pub make_associative_array: ArrayFlag, pub u: u8 }     // projection (fields checked)
impl DeclareCommand {
    // what the flags of the declaration do to the attributes: unit U40 / NOT verified here; uninterpreted functions of the flags and the attribute before
    pub uninterp spec fn exported_before(&self, e: bool) -> bool;
    pub uninterp spec fn exported_after(&self, verb: DeclareVerb, e: bool) -> bool;
    #[verifier::external_body]
    pub fn apply_attributes_before_update(&self, var: &mut ShellVariable) -> (r: Result<(), brush_core::Error>)
        ensures final(var).exported == self.exported_before(old(var).exported), final(var).value == old(var).value
    { unimplemented!() }
    #[verifier::external_body]
    pub fn apply_attributes_after_update(&self, var: &mut ShellVariable, verb: DeclareVerb) -> (r: Result<(), brush_core::Error>)
        ensures final(var).exported == self.exported_after(verb, old(var).exported)
    { unimplemented!() }
}
