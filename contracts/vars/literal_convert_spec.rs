// ---- prelude: ShellVariable::convert_value_literal_for_assignment — what an attribute (integer, upper / lower case, capitalise) may
//  change in a value being assigned: the VALUES, each on its own; never the keys of an array literal, never the number or order of
//  its elements.  (A key written by `declare -p` must name the same element when the text is read back: C13.)
#[verifier::external_body] pub struct ShellVariable { _p: u8 }
#[verifier::external_body] pub struct ShellVariableUpdateTransform { _p: u8 }
pub uninterp spec fn transform_spec(s: Seq<char>, as_int: bool, t: ShellVariableUpdateTransform) -> Seq<char>;
pub uninterp spec fn int_spec(v: ShellVariable) -> bool;
pub uninterp spec fn update_transform_spec(v: ShellVariable) -> ShellVariableUpdateTransform;
pub open spec fn conv_spec(v: ShellVariable, s: Seq<char>) -> Seq<char> { transform_spec(s, int_spec(v), update_transform_spec(v)) }
impl ShellVariable {
    #[verifier::external_body]
    pub fn apply_value_transforms(s: &mut String, treat_as_int: bool, t: ShellVariableUpdateTransform)
        ensures final(s)@ == transform_spec(old(s)@, treat_as_int, t) { unimplemented!() }
    #[verifier::external_body]
    pub fn is_treated_as_integer(&self) -> (r: bool) ensures r == int_spec(*self) { unimplemented!() }
    #[verifier::external_body]
    pub fn get_update_transform(&self) -> (r: ShellVariableUpdateTransform) ensures r == update_transform_spec(*self) { unimplemented!() }
}
pub open spec fn pair_converted(v: ShellVariable, a: (Option<String>, String), b: (Option<String>, String)) -> bool {
    b.0 == a.0 && b.1@ == conv_spec(v, a.1@)
}
// `xs.into_iter().map(f).collect::<Vec<_>>()`: f applied to every element, in order (std); f is the closure hoisted into map_element (R31)
#[verifier::external_body]
pub fn vx_map_collect(self_: &ShellVariable, xs: Vec<(Option<String>, String)>) -> (r: Vec<(Option<String>, String)>)
    ensures r@.len() == xs@.len(), forall|i: int| 0 <= i < xs@.len() ==> map_element_post(*self_, xs@[i], #[trigger] r@[i])
{ unimplemented!() }
