// ---- C10 (here-documents): "tab stripping ... governed solely by the delimiter's form" (POSIX XCU 2.7.4: with `<<-` "all leading
//  <tab> characters shall be stripped from input lines and the line containing the trailing delimiter").
//  While the tokenizer is inside here-document bodies (HereState::InHereDocs) the body being read belongs to the FIRST pending tag:
//  remove_here_end_tag compares the accumulated text with current_here_tags[0] and the bodies of several documents on one line
//  follow each other in the order of their operators (text checked at extraction).  So a character of the body is dropped iff it is
//  a <tab> at the start of a line and THAT tag was written with `<<-`.
pub struct SourcePosition { pub index: usize, pub line: usize, pub column: usize }
#[verifier::external_body] pub struct TokenizeResult { _p: u8 }
#[verifier::external_body] pub struct TokenizerError { _p: u8 }
pub struct CrossTokenParseState { pub current_here_tags: Vec<HereTag> }      // projection (field checked)
pub struct Tokenizer { pub cross_state: CrossTokenParseState, pub consumed: usize }
impl Tokenizer {
    // consume_char: takes exactly one character off the input (or fails)
    #[verifier::external_body]
    pub fn consume_char(&mut self) -> (r: Result<(), TokenizerError>)
        ensures final(self).cross_state == old(self).cross_state, r is Ok ==> final(self).consumed == old(self).consumed + 1
    { unimplemented!() }
    // remove_here_end_tag: may close the current body (replaces the token text, delimits the token); appends nothing
    #[verifier::external_body]
    pub fn remove_here_end_tag(&mut self, state: &mut TokenParseState, result: &mut Option<TokenizeResult>, ends_with_newline: bool) -> (r: Result<bool, TokenizerError>)
        ensures final(state).appended() == old(state).appended(), final(self).consumed == old(self).consumed
    { unimplemented!() }
}
#[verifier::external_body] pub struct TokenParseState { _p: u8 }
impl TokenParseState {
    pub uninterp spec fn token(&self) -> Seq<char>;        // the token text accumulated so far
    pub uninterp spec fn appended(&self) -> Seq<char>;     // ghost: every character ever appended
    #[verifier::external_body]
    pub fn started_token(&self) -> (r: bool) ensures r == (self.token().len() > 0) { unimplemented!() }
    #[verifier::external_body]
    pub fn current_token(&self) -> (r: &str) ensures r@ == self.token() { unimplemented!() }
    #[verifier::external_body]
    pub fn append_char(&mut self, c: char) ensures final(self).token() == old(self).token().push(c), final(self).appended() == old(self).appended().push(c) { unimplemented!() }
}
pub open spec fn at_line_start(t: Seq<char>) -> bool { t.len() == 0 || t.last() == '\n' }
pub open spec fn strips(tags: Seq<HereTag>, t: Seq<char>, c: char) -> bool { tags.len() > 0 && tags[0].remove_tabs && at_line_start(t) && c == '\t' }
