// ---- prelude: end of input while here-documents are pending (C01: the loop of Tokenizer::next_token_until must not spin).
//  At end of input the loop either fails (unterminated here-document), or it closes one pending document / delimits the token in hand
//  and goes round again.  Progress measure of a round:  M = (number of pending here-tags) + 2 * (a token has been started).
//  The three functions involved are under contract: the end-of-input step (slice), remove_here_end_tag, delimit_current_token.
pub struct SourcePosition { pub index: usize, pub line: usize, pub column: usize }
impl Clone for SourcePosition { fn clone(&self) -> (r: Self) ensures r == *self { SourcePosition { index: self.index, line: self.line, column: self.column } } }
#[verifier::external_body] pub struct Token { _p: u8 }
// projection of TokenizerError (variants checked at extraction)
pub enum TokenizerError { MissingHereTagForDocumentBody, MissingHereTag(String), UnterminatedHereDocuments(String, String), UnterminatedExpansion, Other }
pub enum QuoteMode { None, AnsiC(SourcePosition), Single(SourcePosition), Double(SourcePosition) }

// stubs read off their bodies
#[verifier::external_body]
pub fn take_here_state(s: &mut HereState) -> (r: HereState) ensures r == *old(s), *final(s) is None { unimplemented!() }       // std::mem::take: HereState's Default is `None` (#[default], checked)
#[verifier::external_body] pub fn here_tag_text(token: &str) -> String { unimplemented!() }                                      // format!("{}\n", token.trim_ascii_start())
#[verifier::external_body] pub fn str_has_quoting_char(s: &String) -> bool { unimplemented!() }                                  // tag.contains(is_quoting_char)
#[verifier::external_body] pub fn unquote_str(s: &str) -> String { unimplemented!() }
#[verifier::external_body] pub fn str_to_owned(s: &str) -> (r: String) ensures r@ == s@ { unimplemented!() }
#[verifier::external_body]
pub fn queue_all(q: &mut Vec<TokenizeResult>, ts: Vec<TokenizeResult>) ensures final(q)@ == old(q)@ + ts@ { unimplemented!() }  // for t in ts { q.push(t) }
#[verifier::external_body] pub fn strip_one_trailing_newline(s: &String) -> &str { unimplemented!() }                            // s.strip_suffix('\n').unwrap_or(s)
#[verifier::external_body]
pub fn str_strip_suffix<'a>(s: &'a str, suffix: &str) -> (r: Option<&'a str>) ensures r is Some ==> r->Some_0@ + suffix@ == s@, r is None ==> true { unimplemented!() }
#[verifier::external_body] pub fn here_tag_names(tags: &Vec<HereTag>) -> String { unimplemented!() }
#[verifier::external_body] pub fn here_tag_positions(tags: &Vec<HereTag>) -> String { unimplemented!() }

pub open spec fn started(st: TokenParseState) -> bool { st.token_so_far@.len() > 0 }
pub open spec fn pending(cs: CrossTokenParseState) -> int { cs.current_here_tags@.len() as int }
pub open spec fn measure(cs: CrossTokenParseState, st: TokenParseState) -> int { pending(cs) + (if started(st) { 2int } else { 0int }) }
// what closing a here-document body / delimiting the token in hand does to the measure's ingredients
pub open spec fn body_end_effect(old_cs: CrossTokenParseState, new_cs: CrossTokenParseState, new_st: TokenParseState) -> bool {
    &&& !started(new_st)
    &&& pending(new_cs) == pending(old_cs) + (if old_cs.here_state is CurrentTokenIsHereTag { 1int } else { 0int }) - (if old_cs.here_state is InHereDocs { 1int } else { 0int })
}
impl TokenParseState {
    // pop: hands out the token and starts an empty one (mem::take of token_so_far)
    #[verifier::external_body]
    pub fn pop(&mut self, end_position: &SourcePosition) -> (t: Token) ensures final(self).token_so_far@.len() == 0 { unimplemented!() }
    #[verifier::external_body]
    pub fn started_token(&self) -> (r: bool) ensures r == started(*self) { unimplemented!() }
    #[verifier::external_body]
    pub fn current_token(&self) -> (r: &str) ensures r@ == self.token_so_far@ { unimplemented!() }
    #[verifier::external_body]
    pub fn is_newline(&self) -> (r: bool) ensures r == (self.token_so_far@ == seq!['\n']) { unimplemented!() }
    #[verifier::external_body]
    pub fn append_char(&mut self, c: char) ensures final(self).token_so_far@ == old(self).token_so_far@.push(c) { unimplemented!() }
    #[verifier::external_body]
    pub fn append_str(&mut self, s: &str) ensures final(self).token_so_far@ == old(self).token_so_far@ + s@ { unimplemented!() }
    #[verifier::external_body]
    pub fn replace_with_here_doc(&mut self, s: String) ensures final(self).token_so_far == s { unimplemented!() }
}
pub struct Tokenizer { pub cross_state: CrossTokenParseState }
impl Tokenizer {
    // next_char: the next character of the input, None at its end (reader errors are Err)
    #[verifier::external_body]
    pub fn next_char(&mut self) -> (r: Result<Option<char>, TokenizerError>) ensures final(self).cross_state.current_here_tags == old(self).cross_state.current_here_tags { unimplemented!() }
}
// R17: Cow<str> is erased to String; `.into()` on a String / &str becomes `.vx_owned()` (same characters)
pub trait VxOwned { spec fn vx_view(&self) -> Seq<char>; fn vx_owned(self) -> (r: String) ensures r@ == self.vx_view(); }
impl VxOwned for String { open spec fn vx_view(&self) -> Seq<char> { self@ } #[verifier::external_body] fn vx_owned(self) -> (r: String) { self } }
impl<'a> VxOwned for &'a str { open spec fn vx_view(&self) -> Seq<char> { self@ } #[verifier::external_body] fn vx_owned(self) -> (r: String) { self.to_string() } }
