// ---- prelude: TokenParseState::pop — the token handed out carries the text gathered so far and the source range from where the
//  previous token of this state ended to the position given; the next token starts exactly there.  So the tokens one state hands out
//  are adjacent and never overlap, which is what the highlighter's walk over sorted tokens relies on (U20c assumes disjoint ranges).
pub enum QuoteMode { None, AnsiC(SourcePosition), Single(SourcePosition), Double(SourcePosition) }
// derived Clone of SourcePosition (three usize fields): a field-wise copy (ASSUMED: Verus gives a derived, non-Copy Clone no spec)
#[verifier::external_body]
pub fn position_to_owned(p: &SourcePosition) -> (r: SourcePosition) ensures r == *p { unimplemented!() }                          // p.to_owned()
#[verifier::external_body]
pub fn position_clone_into(p: &SourcePosition, target: &mut SourcePosition) ensures *final(target) == *p { unimplemented!() }    // p.clone_into(target)
pub uninterp spec fn default_spec<T>() -> T;
pub assume_specification<T: Default> [std::mem::take] (t: &mut T) -> (r: T)
    ensures r == *old(t), *final(t) == default_spec::<T>();
pub broadcast axiom fn axiom_default_bool() ensures #[trigger] default_spec::<bool>() == false;
pub broadcast axiom fn axiom_default_string() ensures (#[trigger] default_spec::<String>())@ == Seq::<char>::empty();
pub open spec fn token_text(t: Token) -> Seq<char> { match t { Token::Operator(s, _) => s@, Token::Word(s, _) => s@ } }
pub open spec fn token_span(t: Token) -> SourceSpan { match t { Token::Operator(_, l) => l, Token::Word(_, l) => l } }
