// ---- prelude: a nested construct ($(..), $((..)), $[..], ${..}) met while here-documents are still pending on its line.
//  The tokens read for the construct belong to the word being built; the here-documents pending on the enclosing line belong to the
//  enclosing command.  Contract: the construct is tokenized with no foreign here-document pending (so delimit_current_token cannot file
//  its tokens behind an enclosing here tag), and afterwards the enclosing line's here state and pending tags are exactly what they were.
pub struct SourcePosition { pub index: usize, pub line: usize, pub column: usize }
impl Clone for SourcePosition { fn clone(&self) -> (r: Self) ensures r == *self { SourcePosition { index: self.index, line: self.line, column: self.column } } }
#[verifier::external_body] pub struct SourceSpan { _p: u8 }
// projection of TokenizerError (variants checked at extraction)
pub enum TokenizerError { UnterminatedExpansion, UnterminatedVariable, Other }
pub enum QuoteMode { None, AnsiC(SourcePosition), Single(SourcePosition), Double(SourcePosition) }

// "every here-document pending now was opened inside the construct being read": holds for the clean state; what the recursive tokenizer
// does to it is its own business (here-documents inside $( .. ) are legal), so it is an abstract predicate the recursion preserves
pub uninterp spec fn inner_only(hs: HereState, tags: Seq<HereTag>) -> bool;
pub broadcast axiom fn axiom_clean_is_inner_only(hs: HereState, tags: Seq<HereTag>)
    requires hs is None, tags.len() == 0,
    ensures #[trigger] inner_only(hs, tags);

#[verifier::external_body]
pub fn take_here_state(s: &mut HereState) -> (r: HereState) ensures r == *old(s), *final(s) is None { unimplemented!() }       // std::mem::take: HereState's Default is `None` (#[default], checked)
#[verifier::external_body]
pub fn take_here_tags(s: &mut Vec<HereTag>) -> (r: Vec<HereTag>) ensures r == *old(s), final(s)@.len() == 0 { unimplemented!() } // std::mem::take: Vec's Default is the empty vector
#[verifier::external_body] pub fn str_eq(a: &str, b: &str) -> (r: bool) ensures r == (a@ == b@) { unimplemented!() }
// nesting_count += 1: one more open delimiter than before; an input with 2^32 nested delimiters is not considered (ASSUMED)
#[verifier::external_body] pub fn vx_inc(n: u32) -> (r: u32) ensures r as int == n as int + 1 || r == u32::MAX { unimplemented!() }
#[verifier::external_body]
pub fn vx_remove_first(v: &mut Vec<TokenizeResult>) -> (r: TokenizeResult) requires old(v)@.len() > 0 ensures final(v)@ == old(v)@.subrange(1, old(v)@.len() as int), r == old(v)@[0] { unimplemented!() }   // Vec::remove(0)

impl Token {
    #[verifier::external_body] pub fn to_str(&self) -> &str { unimplemented!() }
}
impl TokenParseState {
    #[verifier::external_body]
    pub fn append_char(&mut self, c: char) ensures final(self).token_so_far@ == old(self).token_so_far@.push(c) { unimplemented!() }
    #[verifier::external_body]
    pub fn append_str(&mut self, s: &str) ensures final(self).token_so_far@ == old(self).token_so_far@ + s@ { unimplemented!() }
}
pub struct Tokenizer { pub cross_state: CrossTokenParseState }
impl Tokenizer {
    // next_char: moves the cursor only
    #[verifier::external_body]
    pub fn next_char(&mut self) -> (r: Result<Option<char>, TokenizerError>)
        ensures final(self).cross_state.current_here_tags == old(self).cross_state.current_here_tags, final(self).cross_state.here_state == old(self).cross_state.here_state
    { unimplemented!() }
    // next_char()?.unwrap() where the character has just been peeked (by the caller, or by the recursive call that stopped in front of it)
    #[verifier::external_body]
    pub fn vx_next_char_peeked(&mut self) -> (r: Result<char, TokenizerError>)
        ensures final(self).cross_state.current_here_tags == old(self).cross_state.current_here_tags, final(self).cross_state.here_state == old(self).cross_state.here_state
    { unimplemented!() }
    // the recursion: tokens of the nested construct.  It must be entered with no foreign here-document pending, and keeps it so.
    #[verifier::external_body]
    pub fn next_token_until(&mut self, terminating_char: Option<char>, include_space: bool) -> (r: Result<TokenizeResult, TokenizerError>)
        requires
            //@ tokenizer.rs:next_token_until:nested-entry | C10,C19,C05 the-tokens-of-a-nested-construct-are-read-with-no-enclosing-here-document-pending
            inner_only(old(self).cross_state.here_state, old(self).cross_state.current_here_tags@),
        ensures inner_only(final(self).cross_state.here_state, final(self).cross_state.current_here_tags@)
    { unimplemented!() }
}
