// Option::is_some_and(o, f): false for None, f(x) for Some(x) (std documented behaviour).  ASSUMED.
pub assume_specification<T, F: FnOnce(T) -> bool> [Option::<T>::is_some_and] (o: Option<T>, f: F) -> (r: bool)
    requires o is Some ==> f.requires((o->0,)),
    ensures o is None ==> !r, o is Some ==> f.ensures((o->0,), r);
