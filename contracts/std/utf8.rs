// ---- byte offsets into Rust strings (std: str is UTF-8; slicing at an offset that is not a character boundary panics).
//  ASSUMED: the encoded length of a char (std char::len_utf8) and that str::len / is_char_boundary / slicing follow it.
pub open spec fn utf8_len(c: char) -> int { let v = c as u32; if v < 0x80 { 1 } else if v < 0x800 { 2 } else if v < 0x10000 { 3 } else { 4 } }
pub open spec fn byte_len(s: Seq<char>) -> int decreases s.len() { if s.len() == 0 { 0 } else { byte_len(s.drop_last()) + utf8_len(s.last()) } }
// k is the byte offset of the n-th character boundary
pub open spec fn boundary_at(s: Seq<char>, k: int, n: int) -> bool { 0 <= n <= s.len() && byte_len(s.take(n)) == k }
pub open spec fn boundary(s: Seq<char>, k: int) -> bool { exists|n: int| boundary_at(s, k, n) }
// R14/R19 stubs: the std operations, with their panic conditions as preconditions
#[verifier::external_body]
pub const fn str_len(s: &str) -> (r: usize) ensures r == byte_len(s@) { s.len() }
#[verifier::external_body]
pub fn str_is_char_boundary(s: &str, k: usize) -> (r: bool) ensures r == boundary(s@, k as int) { s.is_char_boundary(k) }
#[verifier::external_body]
pub fn str_slice_to<'a>(s: &'a str, k: usize) -> (r: &'a str)
    requires boundary(s@, k as int),
    ensures exists|n: int| boundary_at(s@, k as int, n) && r@ == s@.take(n),
{ &s[..k] }
#[verifier::external_body]
pub fn str_slice_from<'a>(s: &'a str, k: usize) -> (r: &'a str)
    requires boundary(s@, k as int),
    ensures exists|n: int| boundary_at(s@, k as int, n) && r@ == s@.skip(n),
{ &s[k..] }
#[verifier::external_body]
pub fn str_slice<'a>(s: &'a str, a: usize, b: usize) -> (r: &'a str)
    requires boundary(s@, a as int), boundary(s@, b as int), a <= b,
    ensures exists|m: int, n: int| boundary_at(s@, a as int, m) && boundary_at(s@, b as int, n) && m <= n && r@ == s@.subrange(m, n),
{ &s[a..b] }
pub proof fn lemma_byte_len_nonneg(s: Seq<char>) ensures byte_len(s) >= s.len() decreases s.len()
{ if s.len() > 0 { lemma_byte_len_nonneg(s.drop_last()); } }
pub proof fn lemma_byte_len_concat(a: Seq<char>, b: Seq<char>) ensures byte_len(a + b) == byte_len(a) + byte_len(b) decreases b.len()
{
    if b.len() == 0 { assert(a + b =~= a); }
    else { assert((a + b).drop_last() =~= a + b.drop_last()); assert((a + b).last() == b.last()); lemma_byte_len_concat(a, b.drop_last()); }
}
pub proof fn lemma_byte_len_take(s: Seq<char>, a: int, n: int)
    requires 0 <= a <= n <= s.len(),
    ensures byte_len(s.take(n)) == byte_len(s.take(a)) + byte_len(s.subrange(a, n)), byte_len(s.subrange(a, n)) >= n - a,
{
    assert(s.take(n) =~= s.take(a) + s.subrange(a, n));
    lemma_byte_len_concat(s.take(a), s.subrange(a, n));
    lemma_byte_len_nonneg(s.subrange(a, n));
}
pub proof fn lemma_boundary_zero_and_end(s: Seq<char>) ensures boundary(s, 0), boundary(s, byte_len(s))
{
    assert(s.take(0) =~= Seq::<char>::empty());
    assert(boundary_at(s, 0, 0));
    assert(s.take(s.len() as int) =~= s);
    assert(boundary_at(s, byte_len(s), s.len() as int));
}
// a boundary of the whole text that falls inside a piece of it (given by character positions) is a boundary of the piece
pub proof fn lemma_boundary_in_piece(s: Seq<char>, ca: int, cb: int, k: int)
    requires 0 <= ca <= cb <= s.len(), boundary(s, k), byte_len(s.take(ca)) <= k <= byte_len(s.take(cb)),
    ensures boundary(s.subrange(ca, cb), k - byte_len(s.take(ca))),
{
    let n = choose|n: int| boundary_at(s, k, n);
    if n < ca { lemma_byte_len_take(s, n, ca); assert(byte_len(s.subrange(n, ca)) >= ca - n); assert(false); }
    if n > cb { lemma_byte_len_take(s, cb, n); assert(false); }
    lemma_byte_len_take(s, ca, n);
    let p = s.subrange(ca, cb);
    assert(p.take(n - ca) =~= s.subrange(ca, n));
    assert(boundary_at(p, k - byte_len(s.take(ca)), n - ca));
}
pub proof fn lemma_byte_len_monotone(s: Seq<char>, n: int, m: int)
    requires 0 <= n < m <= s.len(),
    ensures byte_len(s.take(n)) < byte_len(s.take(m)),
{
    lemma_byte_len_take(s, n, m);
}
// a byte offset is the offset of at most one character position
pub proof fn lemma_boundary_unique_all(s: Seq<char>)
    ensures forall|k: int, n: int, m: int| #![trigger boundary_at(s, k, n), boundary_at(s, k, m)] boundary_at(s, k, n) && boundary_at(s, k, m) ==> n == m,
{
    assert forall|k: int, n: int, m: int| #![trigger boundary_at(s, k, n), boundary_at(s, k, m)] boundary_at(s, k, n) && boundary_at(s, k, m) implies n == m by {
        if n < m { lemma_byte_len_monotone(s, n, m); }
        if m < n { lemma_byte_len_monotone(s, m, n); }
    }
}
// the end of the first character is a boundary (position 1)
pub proof fn lemma_first_char_boundary(s: Seq<char>)
    ensures s.len() > 0 ==> boundary_at(s, utf8_len(s[0]), 1) && boundary(s, utf8_len(s[0])),
{
    if s.len() > 0 {
        assert(s.take(1).drop_last() =~= Seq::<char>::empty());
        assert(s.take(1).last() == s[0]);
        assert(byte_len(s.take(1)) == byte_len(Seq::<char>::empty()) + utf8_len(s[0]));
    }
}
// ascending byte offsets, each a character boundary of s and below `limit`
pub open spec fn asc_bounds(s: Seq<char>, ps: Seq<usize>, limit: int) -> bool {
    &&& forall|j: int| 0 <= j < ps.len() ==> boundary(s, #[trigger] ps[j] as int) && (ps[j] as int) < limit
    &&& forall|i: int, j: int| 0 <= i < j < ps.len() ==> ps[i] < ps[j]
}
#[verifier::external_body]
pub fn str_to_owned(s: &str) -> (r: String) ensures r@ == s@ { s.to_owned() }
// String::insert(idx, c): panics unless idx is a character boundary; the character goes in front of the one that starts there
#[verifier::external_body]
pub fn string_insert(st: &mut String, idx: usize, c: char)
    requires boundary(old(st)@, idx as int),
    ensures forall|n: int| boundary_at(old(st)@, idx as int, n) ==> final(st)@ == old(st)@.insert(n, c),
{ st.insert(idx, c) }
