// str predicates taking a generic `Pattern`: the result is an uninterpreted function of (text, pattern); axioms give its meaning
// at the `char` instance (std documented behaviour).  ASSUMED.
pub uninterp spec fn str_starts_with_spec<P>(s: Seq<char>, p: P) -> bool;
pub uninterp spec fn str_ends_with_spec<P>(s: Seq<char>, p: P) -> bool;
pub assume_specification<P: std::str::pattern::Pattern> [str::starts_with] (s: &str, p: P) -> (r: bool)
    ensures r == str_starts_with_spec(s@, p);
pub assume_specification<P: std::str::pattern::Pattern> [str::ends_with] (s: &str, p: P) -> (r: bool)
    where for<'a> P::Searcher<'a>: std::str::pattern::ReverseSearcher<'a>
    ensures r == str_ends_with_spec(s@, p);
pub broadcast axiom fn axiom_str_starts_with_char(s: Seq<char>, c: char)
    ensures #[trigger] str_starts_with_spec(s, c) == (s.len() > 0 && s[0] == c);
pub broadcast axiom fn axiom_str_ends_with_char(s: Seq<char>, c: char)
    ensures #[trigger] str_ends_with_spec(s, c) == (s.len() > 0 && s.last() == c);
