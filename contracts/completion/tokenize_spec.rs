// ---- prelude: completion.rs simple_tokenize_by_delimiters — every token it returns is a piece input[ca..cb] of the line at
//  character positions, with `start` the byte offset of ca (what unit U24 needs of it), and cutting the pieces never panics.
#[verifier::external_body]
pub fn str_chars_vec(s: &str) -> (r: Vec<char>) ensures r@ == s@ { s.chars().collect() }
pub uninterp spec fn is_delim(d: Seq<char>, c: char) -> bool;
#[verifier::external_body]
pub fn slice_contains_char(d: &[char], c: char) -> (r: bool) ensures r == is_delim(d@, c) { unimplemented!() }            // delimiters.contains(&c)
pub uninterp spec fn ascii_ws(c: char) -> bool;
#[verifier::external_body]
pub fn char_is_ascii_whitespace(c: char) -> (r: bool) ensures r == ascii_ws(c) { unimplemented!() }
pub open spec fn tok_at(input: Seq<char>, t: CompletionToken, ca: int, cb: int) -> bool {
    0 <= ca <= cb <= input.len() && t.text@ == input.subrange(ca, cb) && t.start == byte_len(input.take(ca))
}
pub open spec fn tok_ok(input: Seq<char>, t: CompletionToken) -> bool { exists|ca: int, cb: int| tok_at(input, t, ca, cb) }
pub axiom fn axiom_str_fits_usize(s: &str) ensures byte_len(s@) <= isize::MAX;
// the piece cut between two known character positions
pub proof fn lemma_piece(input: Seq<char>, t: CompletionToken, a: int, b: int, n: int, p: int)
    requires 0 <= n <= p <= input.len(), boundary_at(input, a, n), boundary_at(input, b, p), t.start == a,
        exists|m: int, q: int| boundary_at(input, a, m) && boundary_at(input, b, q) && m <= q && t.text@ == input.subrange(m, q),
    ensures tok_ok(input, t)
{
    lemma_boundary_unique_all(input);
    let (m, q) = choose|m: int, q: int| boundary_at(input, a, m) && boundary_at(input, b, q) && m <= q && t.text@ == input.subrange(m, q);
    assert(m == n && q == p);
    assert(tok_at(input, t, n, p));
}
