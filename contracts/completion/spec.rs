// ---- C01 (line-editor entry points: "completion ... on every line and cursor position"): Completions::get_completions cuts the
//  token under the cursor at the cursor (`&token_str[..cursor - token.start]`).  The cursor is a byte offset supplied by the
//  caller (reedline, the basic line reader, `brushctl complete line --cursor N`); the cut must never land inside a character.
// what the tokenizer (completion.rs simple_tokenize_by_delimiters; "used indices come from char_indices") returns: every token is
// a piece input[ca..cb] of the line (character positions) and `start` is the byte offset of ca.  ASSUMED here.
pub open spec fn tok_at(input: Seq<char>, t: CompletionToken, ca: int, cb: int) -> bool {
    0 <= ca <= cb <= input.len() && t.text@ == input.subrange(ca, cb) && t.start == byte_len(input.take(ca))
}
pub open spec fn tok_ok(input: Seq<char>, t: CompletionToken) -> bool { exists|ca: int, cb: int| tok_at(input, t, ca, cb) }
#[verifier::external_body]
pub fn tokenize_input_for_completion<'a>(input: &'a str) -> (r: Vec<CompletionToken<'a>>)
    ensures forall|i: int| 0 <= i < r@.len() ==> tok_ok(input@, #[trigger] r@[i]),
{ unimplemented!() }
pub proof fn lemma_token_extent(input: Seq<char>, t: CompletionToken)
    requires tok_ok(input, t),
    ensures t.start + byte_len(t.text@) <= byte_len(input),
        forall|k: int| boundary(input, k) && t.start <= k <= t.start + byte_len(t.text@) ==> boundary(t.text@, k - t.start),
{
    let (ca, cb) = choose|ca: int, cb: int| tok_at(input, t, ca, cb);
    lemma_byte_len_take(input, ca, cb);
    lemma_byte_len_take(input, cb, input.len() as int);
    assert(input.take(input.len() as int) =~= input);
    assert forall|k: int| boundary(input, k) && t.start <= k <= t.start + byte_len(t.text@) implies boundary(t.text@, k - t.start) by {
        lemma_boundary_in_piece(input, ca, cb, k);
    }
}
