// ---- prelude: the call of a completion function (completion.rs Spec::call_completion_function), from the point where trap delivery is
//  blocked to the end of the function.  C16: "a registered EXIT trap runs exactly once ... however a shell terminates" — invoke_trap_handler
//  (shell/traps.rs) returns at once while the call stack's trap-delivery block count is above zero, so every way out of this function
//  must leave that count as it found it.
pub mod error { use vstd::prelude::*; #[verifier::external_body] pub struct Error { _p: u8 } }
#[verifier::external_body] pub struct ExecutionParameters { _p: u8 }
#[verifier::external_body] pub struct ShellVariable { _p: u8 }
pub struct ProcessingOptions { pub u: u8 }
impl ProcessingOptions { #[verifier::external_body] pub fn default() -> (r: Self) { unimplemented!() } }
pub mod variables {
    use vstd::prelude::*;
    #[verifier::external_body] pub struct IndexedValues { _p: u8 }
    pub enum ShellValue { IndexedArray(IndexedValues), String(String), Other }     // projection: the two variants the function looks at
}
impl ShellVariable { #[verifier::external_body] pub fn value(&self) -> (r: &variables::ShellValue) { unimplemented!() } }
pub struct Env { pub u: u8 }
impl Env {
    #[verifier::external_body]
    pub fn unset(&mut self, name: &str) -> (r: Result<Option<ShellVariable>, error::Error>) { unimplemented!() }
}
pub struct CallStack { pub trap_delivery_suppress_count: usize }                     // projection (field checked)
pub struct Shell { pub env: Env, pub call_stack: CallStack, pub rest: u8 }           // projection
impl Shell {
    pub open spec fn blocks(&self) -> usize { self.call_stack.trap_delivery_suppress_count }
    pub fn env_mut(&mut self) -> (r: &mut Env) ensures final(self).call_stack == old(self).call_stack, final(self).rest == old(self).rest, *r == old(self).env, *final(r) == final(self).env { &mut self.env }
    // shell/callstack.rs: both delegate to CallStack (text checked); CallStack::acquire_ / release_trap_delivery_block are proved in unit U19
    pub fn acquire_trap_delivery_block(&mut self)
        requires old(self).blocks() < usize::MAX
        ensures final(self).blocks() == old(self).blocks() + 1, final(self).env == old(self).env
    { self.call_stack.trap_delivery_suppress_count = self.call_stack.trap_delivery_suppress_count + 1; }
    pub fn release_trap_delivery_block(&mut self)
        ensures final(self).blocks() == (if old(self).blocks() > 0 { (old(self).blocks() - 1) as usize } else { 0usize }), final(self).env == old(self).env
    { if self.call_stack.trap_delivery_suppress_count > 0 { self.call_stack.trap_delivery_suppress_count = self.call_stack.trap_delivery_suppress_count - 1; } }
    #[verifier::external_body]
    pub fn default_exec_params(&self) -> (r: ExecutionParameters) { unimplemented!() }
    // shell/funcs.rs invoke_function: runs arbitrary shell code; ASSUMED to leave the block count as it found it (nested completions go
    // through this same function)
    #[verifier::external_body]
    pub fn invoke_function(&mut self, name: &str, args: &Vec<&str>, params: ExecutionParameters) -> (r: Result<u8, error::Error>)
        ensures final(self).blocks() == old(self).blocks()
    { unimplemented!() }
}
// R14 stubs
#[verifier::external_body] pub fn vx_status_or_1(r: Result<u8, error::Error>) -> (s: u8) ensures r is Ok ==> s == r->Ok_0, r is Err ==> s == 1 { unimplemented!() }
#[verifier::external_body] pub fn vx_values_owned(v: &variables::IndexedValues) -> (r: Vec<String>) { unimplemented!() }
