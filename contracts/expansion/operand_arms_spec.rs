// ---- prelude (C06): the four operators of parameter expansion that carry a word — ${p:-w} ${p:=w} ${p:?w} ${p:+w} and their colon-less
//  forms (expansion.rs, arms of expand_parameter_expr).  POSIX XCU 2.6.2 / bash manual: the parameter is looked up first (tolerating unset);
//  with the colon the test is "unset or null", without it "unset"; "word" is expanded ONLY WHEN IT IS USED ("If parameter is unset or null,
//  the expansion of word is substituted. Otherwise, the value of parameter is substituted": a side effect in the unused word, such as
//  ${b:=x} or $((i+=1)), must not happen, and under nounset the guard idiom ${v:+$v} must not fail).
pub mod error {
    use vstd::prelude::*;
    #[verifier::external_body] pub struct Error { _p: u8 }
    pub enum ErrorKind { CheckedExpansionError(String) }                       // projection (variant checked)
    impl vstd::std_specs::convert::FromSpecImpl<ErrorKind> for Error {
        open spec fn obeys_from_spec() -> bool { false }
        open spec fn from_spec(k: ErrorKind) -> Self { arbitrary() }
    }
    impl From<ErrorKind> for Error { #[verifier::external_body] fn from(k: ErrorKind) -> Self { unimplemented!() } }
    impl Error { #[verifier::external_body] pub fn into_fatal(self) -> Self { unimplemented!() } }
}
pub mod brush_parser { pub mod word { pub use super::super::{ParameterTestType, Parameter}; } }
#[verifier::external_body] pub struct Parameter { _p: u8 }
#[verifier::external_body] pub struct Expansion { _p: u8 }
impl Expansion {
    pub uninterp spec fn state(&self) -> ParameterState;
    // Expansion::classify: set / null / unset (bounded harnesses of unit U9)
    #[verifier::external_body] pub fn classify(&self) -> (r: ParameterState) ensures r == self.state() { unimplemented!() }
}
pub uninterp spec fn expansion_of_text(s: Seq<char>) -> Expansion;
impl vstd::std_specs::convert::FromSpecImpl<String> for Expansion {
    open spec fn obeys_from_spec() -> bool { true }
    open spec fn from_spec(s: String) -> Self { expansion_of_text(s@) }
}
impl From<String> for Expansion { #[verifier::external_body] fn from(s: String) -> (r: Self) ensures r == expansion_of_text(s@) { unimplemented!() } }
pub enum Ev { Lookup(Parameter, bool), Word(Seq<char>), Text(Seq<char>), Assign(Parameter, Seq<char>) }
pub uninterp spec fn lookup_result(log: Seq<Ev>, p: Parameter, indirect: bool) -> Result<Expansion, error::Error>;
pub uninterp spec fn word_result(log: Seq<Ev>, w: Seq<char>) -> Result<Expansion, error::Error>;
pub uninterp spec fn text_result(log: Seq<Ev>, w: Seq<char>) -> Result<Seq<char>, error::Error>;
pub uninterp spec fn assign_ok(log: Seq<Ev>, p: Parameter, v: Seq<char>) -> bool;
pub uninterp spec fn joined(e: Expansion) -> Seq<char>;
pub struct WordExpander { pub log: Ghost<Seq<Ev>>, pub u: u8 }                // projection: ghost log of what the arm asked for, in order
impl WordExpander {
    #[verifier::external_body]
    pub fn expand_parameter_allowing_unset(&mut self, parameter: &Parameter, indirect: bool) -> (r: Result<Expansion, error::Error>)
        ensures final(self).log@ == old(self).log@.push(Ev::Lookup(*parameter, indirect)), r == lookup_result(old(self).log@, *parameter, indirect)
    { unimplemented!() }
    #[verifier::external_body]
    pub fn expand_parameter_word(&mut self, word: &str) -> (r: Result<Expansion, error::Error>)
        ensures final(self).log@ == old(self).log@.push(Ev::Word(word@)), r == word_result(old(self).log@, word@)
    { unimplemented!() }
    #[verifier::external_body]
    pub fn basic_expand_to_str(&mut self, word: &str) -> (r: Result<String, error::Error>)
        ensures final(self).log@ == old(self).log@.push(Ev::Text(word@)),
            match text_result(old(self).log@, word@) { Ok(t) => r is Ok && r->Ok_0@ == t, Err(e) => r == Err::<String, error::Error>(e) }
    { unimplemented!() }
    #[verifier::external_body]
    pub fn fields_to_string(&self, e: Expansion) -> (r: String) ensures r@ == joined(e) { unimplemented!() }
    #[verifier::external_body]
    pub fn assign_to_parameter(&mut self, parameter: &Parameter, value: String) -> (r: Result<(), error::Error>)
        ensures final(self).log@ == old(self).log@.push(Ev::Assign(*parameter, value@)), (r is Ok) == assign_ok(old(self).log@, *parameter, value@)
    { unimplemented!() }
}
// R14: `opt.as_ref().map_or("", |v| v.as_str())`
#[verifier::external_body]
pub fn opt_str_or_empty(o: &Option<String>) -> (r: &str) ensures r@ == (match *o { Some(s) => s@, None => Seq::<char>::empty() }) { unimplemented!() }
pub open spec fn opt_text(o: Option<String>) -> Seq<char> { match o { Some(s) => s@, None => Seq::<char>::empty() } }
// the parameter counts as "there": non-null, or null when only unset is tested (no colon)
pub open spec fn parameter_is_used(t: ParameterTestType, st: ParameterState) -> bool { st is NonZeroLength || (t is Unset && st is DefinedEmptyString) }
