// ---- prelude (C05): two small sources of an unquoted word's value.
//  (a) bash manual, Tilde Expansion: "If this login name is the null string, the tilde is replaced with the value of the shell parameter
//      HOME. If HOME is unset, the home directory of the user executing the shell is substituted instead": a HOME that is SET — to
//      whatever, the empty string included — is used as it is (`HOME=; echo ~/x` prints /x).
//  (b) bash manual, Special Parameters: `"$*"` "expands to a single word with the value of each parameter separated by the first
//      character of the IFS special variable" — whatever that character is (a newline or a tab too).
#[verifier::external_body] pub struct PathBuf { _p: u8 }
pub uninterp spec fn path_of(s: Seq<char>) -> PathBuf;
impl PathBuf { #[verifier::external_body] pub fn from(s: String) -> (r: Self) ensures r == path_of(s@) { unimplemented!() } }
pub uninterp spec fn os_home() -> Option<PathBuf>;
pub mod users { use vstd::prelude::*;
    #[verifier::external_body] pub fn get_current_user_home_dir() -> (r: Option<super::PathBuf>) ensures r == super::os_home() { unimplemented!() }
}
pub struct Env { pub u: u8 }
pub uninterp spec fn env_str(e: Env, name: Seq<char>) -> Option<Seq<char>>;        // the value of a variable as text; None: not set
impl Env {
    // env.rs get_str (R17: Cow<str> erased to String)
    #[verifier::external_body]
    pub fn get_str(&self, name: &str, shell: &Shell) -> (r: Option<String>)
        ensures match env_str(*self, name@) { Some(t) => r is Some && r->Some_0@ == t, None => r is None }
    { unimplemented!() }
}
pub struct Shell { pub env: Env, pub u: u8 }
impl Shell {
    pub uninterp spec fn ifs_first(&self) -> char;           // first character of $IFS, a space when IFS is unset or empty
    // shell/expansion.rs get_ifs_first_char: `self.ifs().chars().next().unwrap_or(' ')` (NOT verified here)
    #[verifier::external_body] pub fn get_ifs_first_char(&self) -> (r: char) ensures r == self.ifs_first() { unimplemented!() }
}
pub struct WordExpander<'a> { pub shell: &'a Shell }        // projection
// std pieces a re-write of these statements may use
pub assume_specification<T, P: FnOnce(&T) -> bool> [Option::<T>::filter] (o: Option<T>, p: P) -> (r: Option<T>)
    requires o is Some ==> p.requires((&o->Some_0,)),
    ensures r is Some ==> o is Some && r == o && p.ensures((&o->Some_0,), true),
        r is None ==> (o is None || p.ensures((&o->Some_0,), false));
