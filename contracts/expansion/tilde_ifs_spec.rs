// ---- prelude (C05): two small sources of an unquoted word's value.
//  (a) bash manual, Tilde Expansion: "If this login name is the null string, the tilde is replaced with the value of the shell parameter
//      HOME. If HOME is unset, the home directory of the user executing the shell is substituted instead": a HOME that is SET — to
//      whatever, the empty string included — is used as it is (`HOME=; echo ~/x` prints /x).
//  (b) bash manual, Special Parameters: `"$*"` "expands to a single word with the value of each parameter separated by the first
//      character of the IFS special variable" — whatever that character is (a newline or a tab too).
#[verifier::external_body] pub struct PathBuf { _p: u8 }
pub uninterp spec fn path_of(s: Seq<char>) -> PathBuf;
impl PathBuf { #[verifier::external_body] pub fn from(s: String) -> (r: Self) ensures r == path_of(s@) { unimplemented!() } }
pub uninterp spec fn os_home() -> Option<PathBuf>;
pub mod users { use vstd::prelude::*;
    #[verifier::external_body] pub fn get_current_user_home_dir() -> (r: Option<super::PathBuf>) ensures r == super::os_home() { unimplemented!() }
}
pub struct Env { pub u: u8 }
pub uninterp spec fn env_str(e: Env, name: Seq<char>) -> Option<Seq<char>>;        // the value of a variable as text; None: not set
impl Env {
    // env.rs get_str (R17: Cow<str> erased to String)
    #[verifier::external_body]
    pub fn get_str(&self, name: &str, shell: &Shell) -> (r: Option<String>)
        ensures match env_str(*self, name@) { Some(t) => r is Some && r->Some_0@ == t, None => r is None }
    { unimplemented!() }
}
pub struct Shell { pub env: Env, pub u: u8 }
impl Shell {
    // shell.rs env_str("IFS") (R17: Cow<str> erased to String): the value of IFS as text, None when IFS is not set
    #[verifier::external_body]
    pub fn env_str(&self, name: &str) -> (r: Option<String>)
        ensures match env_str(self.env, name@) { Some(t) => r is Some && r->Some_0@ == t, None => r is None }
    { unimplemented!() }
    // the text field splitting and "$*" work with: $IFS, or <space><tab><newline> when IFS is not set
    pub open spec fn ifs_text(&self) -> Seq<char> { match env_str(self.env, "IFS"@) { Some(t) => t, None => seq![' ', '\t', '\n'] } }
    // the separator of "$*": bash manual, Special Parameters: "the first character of the IFS special variable ... If IFS is unset, the
    // parameters are separated by spaces. If IFS is null, the parameters are joined without intervening separators."
    pub open spec fn star_separator(&self) -> Seq<char> { if self.ifs_text().len() > 0 { seq![self.ifs_text()[0]] } else { Seq::<char>::empty() } }
}
// R14 stubs
#[verifier::external_body] pub fn vx_default_ifs() -> (r: String) ensures r@ == seq![' ', '\t', '\n'] { unimplemented!() }
#[verifier::external_body] pub fn vx_first_char(s: &String) -> (r: Option<char>) ensures r == (if s@.len() > 0 { Some(s@[0]) } else { None::<char> }) { unimplemented!() }
#[verifier::external_body] pub fn vx_char_opt_to_string(c: Option<char>) -> (r: String) ensures r@ == (match c { Some(x) => seq![x], None => Seq::<char>::empty() }) { unimplemented!() }
pub struct WordExpander<'a> { pub shell: &'a Shell }        // projection
// std pieces a re-write of these statements may use
pub assume_specification<T, P: FnOnce(&T) -> bool> [Option::<T>::filter] (o: Option<T>, p: P) -> (r: Option<T>)
    requires o is Some ==> p.requires((&o->Some_0,)),
    ensures r is Some ==> o is Some && r == o && p.ensures((&o->Some_0,), true),
        r is None ==> (o is None || p.ensures((&o->Some_0,), false));
// what a joiner value puts between the elements, whichever type the code uses for it
pub trait VxSep { spec fn vx_sep(&self) -> Seq<char>; }
impl VxSep for char { open spec fn vx_sep(&self) -> Seq<char> { seq![*self] } }
impl VxSep for String { open spec fn vx_sep(&self) -> Seq<char> { self@ } }
impl VxSep for Option<char> { open spec fn vx_sep(&self) -> Seq<char> { match *self { Some(c) => seq![c], None => Seq::<char>::empty() } } }
