// ---- prelude: coalesce_expansions — the pieces of a word, each already expanded to a list of fields, put together.
//  C05: `a$x` with x="1 2" is the two fields `a1`, `2`: the FIRST field of each expansion continues the LAST field so far, every other
//  field stands on its own, in order; nothing is dropped, nothing is merged elsewhere.  The flags are those of the last expansion.
pub open spec fn fv(f: WordField) -> Seq<ExpansionPiece> { f.0@ }
pub open spec fn fsv(fs: Seq<WordField>) -> Seq<Seq<ExpansionPiece>> { fs.map_values(|f: WordField| fv(f)) }
pub open spec fn glue(acc: Seq<Seq<ExpansionPiece>>, fields: Seq<Seq<ExpansionPiece>>) -> Seq<Seq<ExpansionPiece>> {
    if fields.len() == 0 { acc }
    else if acc.len() == 0 { fields }
    else { acc.drop_last().push(acc.last() + fields[0]) + fields.skip(1) }
}
pub open spec fn coalesce(es: Seq<Expansion>) -> Seq<Seq<ExpansionPiece>> decreases es.len() {
    if es.len() == 0 { Seq::empty() } else { glue(coalesce(es.drop_last()), fsv(es.last().fields@)) }
}
pub broadcast proof fn lemma_coalesce_push(es: Seq<Expansion>, e: Expansion)
    ensures #[trigger] coalesce(es.push(e)) == glue(coalesce(es), fsv(e.fields@)),
{ assert(es.push(e).drop_last() =~= es); }
// one more field of the current expansion
pub proof fn lemma_glue_step(a: Seq<Seq<ExpansionPiece>>, f: Seq<Seq<ExpansionPiece>>, n: int)
    requires 0 <= n < f.len(),
    ensures glue(a, f.take(n + 1)) =~~= (if n == 0 { if a.len() == 0 { seq![f[0]] } else { a.drop_last().push(a.last() + f[0]) } } else { glue(a, f.take(n)).push(f[n]) }),
{
    if n == 0 {
        assert(f.take(1).len() == 1 && f.take(1)[0] == f[0]);
        assert(f.take(1).skip(1) =~~= Seq::<Seq<ExpansionPiece>>::empty());
        if a.len() == 0 { assert(f.take(1) =~~= seq![f[0]]); }
    } else {
        assert(f.take(n + 1)[0] == f[0] && f.take(n)[0] == f[0]);
        assert(f.take(n + 1).skip(1) =~~= f.take(n).skip(1).push(f[n]));
        if a.len() == 0 { assert(f.take(n + 1) =~~= f.take(n).push(f[n])); }
    }
}
impl Clone for ExpansionPiece { #[verifier::external_body] fn clone(&self) -> (r: Self) ensures r == *self { unimplemented!() } }
// a vector's length is a usize (Vec::len)
pub broadcast axiom fn axiom_vec_len_fits<T>(v: Vec<T>) ensures #[trigger] v@.len() <= usize::MAX;
