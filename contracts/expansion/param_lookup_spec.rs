// ---- prelude: WordExpander::expand_parameter_without_indirect — from a parameter to its value, or to "unset".
//  C03: "`set -u` aborts on exactly the unset-parameter expansions bash rejects": whether a parameter without a value is an error is
//  decided in ONE place (undefined_expansion: U3) from the tolerance flag of the caller; the lookup hands it that flag unchanged, for
//  every form of parameter, and calls it exactly when there is no value (bash: an unset name, an unset positional parameter, an
//  array element that does not exist — a missing key of an existing associative array included; `$@` / `${a[@]}` are never unset).
#[verifier::external_body] pub struct Shell { _p: u8 }
#[verifier::external_body] pub struct Expansion { _p: u8 }
#[verifier::external_body] pub struct ShellVariable { _p: u8 }
#[verifier::external_body] pub struct ShellValue { _p: u8 }
#[verifier::external_body] pub struct EnvironmentScope { _p: u8 }
#[verifier::external_body] pub struct ShellEnvironment { _p: u8 }
pub mod error { use vstd::prelude::*; #[verifier::external_body] pub struct Error { _p: u8 } }
// the `&'a mut Shell` field is modelled as an owned Shell: the same reads and writes go through it
pub struct WordExpander { pub shell: Shell }

pub uninterp spec fn exp_from(s: Seq<char>) -> Expansion;
pub uninterp spec fn special_spec(sh: Shell, p: brush_parser::word::SpecialParameter) -> Expansion;
pub uninterp spec fn undef_spec(sh: Shell, p: brush_parser::word::Parameter, allow: bool) -> Result<Expansion, error::Error>;
pub uninterp spec fn args_spec(sh: Shell) -> Seq<String>;
pub uninterp spec fn valid_name(n: Seq<char>) -> bool;
pub uninterp spec fn var_of(sh: Shell, n: Seq<char>) -> Option<ShellVariable>;
pub uninterp spec fn value_of(v: ShellVariable) -> ShellValue;
pub uninterp spec fn is_unset_value(v: ShellValue) -> bool;
pub uninterp spec fn is_assoc_value(v: ShellValue) -> bool;           // AssociativeArray(_) | Unset(AssociativeArray)
pub uninterp spec fn cow_spec(v: ShellValue, sh: Shell) -> Option<Seq<char>>;
pub uninterp spec fn at_spec(v: ShellValue, ix: Seq<char>, sh: Shell) -> Option<Seq<char>>;   // Ok(Some(text)) of get_at; anything else is None
pub uninterp spec fn index_spec(sh: Shell, index: Seq<char>, assoc: bool) -> Option<(Seq<char>, Shell)>;   // evaluating a subscript: its text and the shell afterwards (arithmetic may assign); None: error
pub uninterp spec fn all_spec(sh: Shell, name: Seq<char>, concatenate: bool) -> Expansion;

#[verifier::external_body] pub fn expansion_from(s: String) -> (r: Expansion) ensures r == exp_from(s@) { unimplemented!() }
#[verifier::external_body] pub fn bad_substitution(n: String) -> error::Error { unimplemented!() }
#[verifier::external_body] pub fn valid_variable_name(n: &str) -> (r: bool) ensures r == valid_name(n@) { unimplemented!() }
#[verifier::external_body] pub fn cow_to_string(s: String) -> (r: String) ensures r@ == s@ { s }     // R17: Cow<str>::to_string()
impl Shell {
    #[verifier::external_body] pub fn current_shell_args(&self) -> (r: &[String]) ensures r@ == args_spec(*self) { unimplemented!() }
    #[verifier::external_body] pub fn env(&self) -> (r: &ShellEnvironment) ensures env_shell(*r) == *self { unimplemented!() }
}
pub uninterp spec fn env_shell(e: ShellEnvironment) -> Shell;
impl ShellEnvironment {
    // R14: `get(name)` (generic over AsRef<str>) called as get_str(name.as_str())
    #[verifier::external_body]
    pub fn get_str(&self, name: &str) -> (r: Option<(EnvironmentScope, &ShellVariable)>)
        ensures (r is Some) == (var_of(env_shell(*self), name@) is Some), r is Some ==> *r->Some_0.1 == var_of(env_shell(*self), name@)->Some_0
    { unimplemented!() }
}
impl ShellVariable {
    #[verifier::external_body] pub fn value(&self) -> (r: &ShellValue) ensures *r == value_of(*self) { unimplemented!() }
}
impl ShellValue {
    #[verifier::external_body] pub fn vx_is_unset(&self) -> (r: bool) ensures r == is_unset_value(*self) { unimplemented!() }       // matches!(v, ShellValue::Unset(_))
    #[verifier::external_body] pub fn vx_is_assoc(&self) -> (r: bool) ensures r == is_assoc_value(*self) { unimplemented!() }       // matches!(v, AssociativeArray(_) | Unset(AssociativeArray))
    #[verifier::external_body]
    pub fn try_get_cow_str(&self, shell: &Shell) -> (r: Option<String>)
        ensures (r is Some) == (cow_spec(*self, *shell) is Some), r is Some ==> r->Some_0@ == cow_spec(*self, *shell)->Some_0
    { unimplemented!() }
    // Result<Option<Cow<str>>, Error>: `let Ok(Some(value)) = ..` is the only use, so the stub returns that reading (R14)
    #[verifier::external_body]
    pub fn get_at_ok_some(&self, index: &str, shell: &Shell) -> (r: Option<String>)
        ensures (r is Some) == (at_spec(*self, index@, *shell) is Some), r is Some ==> r->Some_0@ == at_spec(*self, index@, *shell)->Some_0
    { unimplemented!() }
}
impl WordExpander {
    #[verifier::external_body]
    pub fn expand_special_parameter(&self, p: &brush_parser::word::SpecialParameter) -> (r: Expansion) ensures r == special_spec(self.shell, *p) { unimplemented!() }
    // U3 proves its body: Ok(undefined) when tolerated or nounset is off, a fatal error otherwise
    #[verifier::external_body]
    pub fn undefined_expansion(&self, parameter: &brush_parser::word::Parameter, allow_unset_vars: bool) -> (r: Result<Expansion, error::Error>)
        ensures r == undef_spec(self.shell, *parameter, allow_unset_vars) { unimplemented!() }
    #[verifier::external_body]
    pub fn expand_array_index(&mut self, index: &str, for_set_associative_array: bool) -> (r: Result<String, error::Error>)
        ensures match index_spec(old(self).shell, index@, for_set_associative_array) {
            Some((t, sh)) => r is Ok && r->Ok_0@ == t && final(self).shell == sh,
            None => r is Err,
        } { unimplemented!() }
    // the NamedWithAllIndices arm's value: all elements, or no field at all (never "unset")
    #[verifier::external_body]
    pub fn all_elements(&self, name: &String, concatenate: bool) -> (r: Expansion) ensures r == all_spec(self.shell, name@, concatenate) { unimplemented!() }
}
