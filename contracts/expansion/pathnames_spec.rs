// ---- prelude: WordExpander::expand_pathnames_in_field — what a field becomes after pathname expansion.
//  C04 / C05: the sorted matches when there are any; otherwise (nullglob, failglob off) the field's own text, character for character —
//  text that came out of a quoted piece or out of an expansion is never rewritten; nothing under nullglob; an error under failglob.
pub mod error { use vstd::prelude::*; #[verifier::external_body] pub struct Error { _p: u8 } }
pub mod patterns { use vstd::prelude::*; use super::*;
    #[verifier::external_body] pub struct Pattern { _p: u8 }
    pub struct FilenameExpansionOptions { pub require_dot_in_pattern_to_match_dot_files: bool }
    pub uninterp spec fn pattern_of(f: WordField) -> Pattern;
    pub uninterp spec fn with_extglob(p: Pattern, v: bool) -> Pattern;
    pub uninterp spec fn with_nocase(p: Pattern, v: bool) -> Pattern;
    pub uninterp spec fn expand_spec(p: Pattern, sh: Shell, o: FilenameExpansionOptions) -> Result<PatternExpansionResult, error::Error>;
    impl Pattern {
        #[verifier::external_body] pub fn vx_from(f: WordField) -> (r: Self) ensures r == pattern_of(f) { unimplemented!() }            // From<WordField> for Pattern (U10)
        #[verifier::external_body] pub fn set_extended_globbing(self, v: bool) -> (r: Self) ensures r == with_extglob(self, v) { unimplemented!() }
        #[verifier::external_body] pub fn set_case_insensitive(self, v: bool) -> (r: Self) ensures r == with_nocase(self, v) { unimplemented!() }
        // R14: expand(working_dir, Some(&accept_all_expand_filter), &options) -> expand_all(shell, &options)
        #[verifier::external_body] pub fn expand_all(&self, shell: &Shell, o: &FilenameExpansionOptions) -> (r: Result<PatternExpansionResult, error::Error>) ensures r == expand_spec(*self, *shell, *o) { unimplemented!() }
    }
}
#[verifier::external_body] pub struct Shell { _p: u8 }
pub struct ParserOptionsP { pub enable_extended_globbing: bool }
pub struct WordExpander { pub shell: Shell, pub parser_options: ParserOptionsP }
impl Shell {
    pub uninterp spec fn opts(&self) -> RuntimeOptions;
    #[verifier::external_body] pub fn options(&self) -> (r: &RuntimeOptions) ensures *r == self.opts() { unimplemented!() }
}
impl Clone for WordField { #[verifier::external_body] fn clone(&self) -> (r: Self) ensures r == *self { unimplemented!() } }
// From<WordField> for String: the texts of the pieces, in order, joined (U11 / U9 prove the piece side)
pub open spec fn piece_text(p: ExpansionPiece) -> Seq<char> { match p { ExpansionPiece::Unsplittable(s) => s@, ExpansionPiece::Splittable(s) => s@ } }
pub open spec fn field_text(f: Seq<ExpansionPiece>) -> Seq<char> decreases f.len() { if f.len() == 0 { Seq::empty() } else { field_text(f.drop_last()) + piece_text(f.last()) } }
#[verifier::external_body] pub fn wordfield_to_string(f: WordField) -> (r: String) ensures r@ == field_text(f.0@) { unimplemented!() }
#[verifier::external_body] pub fn no_match_error(s: String) -> error::Error { unimplemented!() }     // ErrorKind::NoMatch(s).into()
// an expression this unit does not recognise, left open (see the unit: the verdict then needs a replayed input)
#[verifier::external_body] pub fn vx_unrecognised_words(f: WordField) -> Result<Vec<String>, error::Error> { unimplemented!() }
pub open spec fn result_or_default(r: Result<PatternExpansionResult, error::Error>) -> PatternExpansionResult { match r { Ok(x) => x, Err(_) => PatternExpansionResult::NoGlob } }
pub open spec fn paths_of(e: PatternExpansionResult) -> Seq<String> { match e { PatternExpansionResult::NoGlob => Seq::empty(), PatternExpansionResult::Expanded(p) => p@ } }
#[verifier::external_body]
pub fn vx_unwrap_or_default(r: Result<PatternExpansionResult, error::Error>) -> (e: PatternExpansionResult) ensures e == result_or_default(r) { unimplemented!() }   // Result::unwrap_or_default; Default is NoGlob (#[default], checked)
