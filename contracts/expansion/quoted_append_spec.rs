// ---- prelude: the loop of process_double_quoted_pieces that appends the fields of one expanded piece inside double quotes.
//  C04: everything that comes out of an expansion inside double quotes is unsplittable — never re-split, never globbed — whether it
//  continues the field being built (`"x$@"`: the first element) or starts a field of its own.
pub open spec fn fv(f: WordField) -> Seq<ExpansionPiece> { f.0@ }
pub open spec fn fsv(fs: Seq<WordField>) -> Seq<Seq<ExpansionPiece>> { fs.map_values(|f: WordField| fv(f)) }
pub open spec fn all_unsplittable(ps: Seq<ExpansionPiece>) -> bool { forall|k: int| 0 <= k < ps.len() ==> (#[trigger] ps[k]) is Unsplittable }
// `new` is `old` with quoted material added: the fields before the last old one untouched, the last old one continued by
// unsplittable pieces only, every later field unsplittable throughout
pub open spec fn quoted_tail(new: Seq<Seq<ExpansionPiece>>, old: Seq<Seq<ExpansionPiece>>) -> bool {
    &&& new.len() >= old.len()
    &&& forall|j: int| 0 <= j < old.len() - 1 ==> #[trigger] new[j] == old[j]
    &&& (old.len() > 0 ==> (old.last().is_prefix_of(new[old.len() - 1]) && all_unsplittable(new[old.len() - 1].skip(old.last().len() as int))))
    &&& forall|j: int| old.len() <= j < new.len() ==> all_unsplittable(#[trigger] new[j])
}
// `pieces.into_iter().map(|piece| piece.make_unsplittable()).collect()`: every piece made unsplittable, in order (make_unsplittable: U10)
#[verifier::external_body]
pub fn vx_all_unsplittable(v: Vec<ExpansionPiece>) -> (r: Vec<ExpansionPiece>) ensures r@.len() == v@.len(), all_unsplittable(r@) { unimplemented!() }
pub broadcast axiom fn axiom_vec_len_fits<T>(v: Vec<T>) ensures #[trigger] v@.len() <= usize::MAX;
pub proof fn lemma_glue(cur: Seq<Seq<ExpansionPiece>>, old: Seq<Seq<ExpansionPiece>>, extra: Seq<ExpansionPiece>)
    requires quoted_tail(cur, old), cur.len() > 0, all_unsplittable(extra),
    ensures quoted_tail(cur.drop_last().push(cur.last() + extra), old),
{
    let new = cur.drop_last().push(cur.last() + extra);
    let l = cur.len() - 1;
    assert(new.len() == cur.len());
    assert forall|j: int| 0 <= j < old.len() - 1 implies #[trigger] new[j] == old[j] by { assert(new[j] == cur[j]); }
    if old.len() > 0 {
        let o = old.len() - 1;
        if o == l {
            assert(new[o] == cur[o] + extra);
            assert(old.last().is_prefix_of(new[o]));
            assert forall|k: int| 0 <= k < new[o].skip(old.last().len() as int).len() implies (#[trigger] new[o].skip(old.last().len() as int)[k]) is Unsplittable by {
                let kk = k + old.last().len();
                if kk < cur[o].len() { assert(cur[o].skip(old.last().len() as int)[k] == cur[o][kk]); } else { assert(new[o][kk] == extra[kk - cur[o].len()]); }
            }
        } else { assert(new[o] == cur[o]); }
    }
    assert forall|j: int| old.len() <= j < new.len() implies all_unsplittable(#[trigger] new[j]) by {
        if j == l {
            assert forall|k: int| 0 <= k < new[j].len() implies (#[trigger] new[j][k]) is Unsplittable by {
                if k < cur[j].len() { assert(new[j][k] == cur[j][k]); } else { assert(new[j][k] == extra[k - cur[j].len()]); }
            }
        } else { assert(new[j] == cur[j]); }
    }
}
pub proof fn lemma_push(cur: Seq<Seq<ExpansionPiece>>, old: Seq<Seq<ExpansionPiece>>, extra: Seq<ExpansionPiece>)
    requires quoted_tail(cur, old), all_unsplittable(extra),
    ensures quoted_tail(cur.push(extra), old),
{
    let new = cur.push(extra);
    assert forall|j: int| 0 <= j < old.len() - 1 implies #[trigger] new[j] == old[j] by { assert(new[j] == cur[j]); }
    if old.len() > 0 { assert(new[old.len() - 1] == cur[old.len() - 1]); }
    assert forall|j: int| old.len() <= j < new.len() implies all_unsplittable(#[trigger] new[j]) by { if j < cur.len() { assert(new[j] == cur[j]); } }
}
