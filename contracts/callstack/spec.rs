// ---- C18 (every push has its pop) / C16 (a trap handler never re-enters itself): the call stack with its derived counters.
pub mod traps {
    use vstd::prelude::*;
    #[verifier::external_body]
    #[derive(Clone, Copy, PartialEq, Eq, Hash)]
    pub struct Signal { _p: i32 }
    // projection of traps.rs TrapSignal (variants checked); the OS signal payload is opaque
    #[derive(Clone, Copy, PartialEq, Eq, Hash)]
    pub enum TrapSignal { Signal(Signal), Debug, Err, Exit, Return }
    #[verifier::external_body]
    pub struct TrapHandler { _p: u8 }
}
pub mod functions {
    use vstd::prelude::*;
    #[verifier::external_body]
    pub struct Registration { _p: u8 }
}
#[verifier::external_body]
pub struct SourceInfo { _p: u8 }
#[verifier::external_body]
pub struct SourcePosition { _p: u8 }
pub mod std_sync { pub use std::sync::Arc; }
// rule R15: an initialiser expression whose value no contract mentions (frame args / source info / entry position built with
// iterator adapters and closures) is replaced by an arbitrary value of the same type
// derived Hash + Eq of TrapSignal are consistent (needed by vstd's HashSet specs) — assumed
pub broadcast axiom fn axiom_trap_signal_key_model()
    ensures #[trigger] vstd::std_specs::hash::obeys_key_model::<traps::TrapSignal>();
#[verifier::external_body]
pub fn vx_any<T>() -> T { unimplemented!() }
pub assume_specification<T, A: std::alloc::Allocator> [std::collections::VecDeque::<T, A>::is_empty] (v: &std::collections::VecDeque<T, A>) -> (r: bool)
    ensures r == (v@.len() == 0);

pub open spec fn count_fn(fs: Seq<Frame>) -> nat decreases fs.len() {
    if fs.len() == 0 { 0 } else { count_fn(fs.drop_first()) + (if fs[0].frame_type is Function { 1nat } else { 0 }) }
}
pub open spec fn is_src(f: Frame) -> bool { f.frame_type is Script && f.frame_type->Script_0.call_type is Source }
pub open spec fn count_src(fs: Seq<Frame>) -> nat decreases fs.len() {
    if fs.len() == 0 { 0 } else { count_src(fs.drop_first()) + (if is_src(fs[0]) { 1nat } else { 0 }) }
}
pub proof fn lemma_counts_bounded(fs: Seq<Frame>)
    ensures count_fn(fs) <= fs.len(), count_src(fs) <= fs.len()
    decreases fs.len()
{
    if fs.len() > 0 { lemma_counts_bounded(fs.drop_first()); }
}
pub proof fn lemma_push_front_counts(fs: Seq<Frame>, f: Frame)
    ensures
        count_fn(seq![f] + fs) == count_fn(fs) + (if f.frame_type is Function { 1nat } else { 0 }),
        count_src(seq![f] + fs) == count_src(fs) + (if is_src(f) { 1nat } else { 0 }),
{
    assert((seq![f] + fs).drop_first() =~= fs);
}
// Option::is_some_and(o, f): false for None, f(x) for Some(x) (std documented behaviour).  ASSUMED.
pub assume_specification<T, F: FnOnce(T) -> bool> [Option::<T>::is_some_and] (o: Option<T>, f: F) -> (r: bool)
    requires o is Some ==> f.requires((o->0,)),
    ensures o is None ==> !r, o is Some ==> f.ensures((o->0,), r);
// VecDeque::front: the first element, if any (std documented behaviour).  ASSUMED.
pub assume_specification<T, A: std::alloc::Allocator> [std::collections::VecDeque::<T, A>::front] (v: &std::collections::VecDeque<T, A>) -> (r: Option<&T>)
    ensures v@.len() == 0 ==> r is None, v@.len() > 0 ==> r == Some(&v@[0]);
