impl CallStack {
    // representation invariant: the two counters are the numbers of Function / sourced-Script frames
    pub open spec fn wf(&self) -> bool {
        &&& self.func_call_depth == count_fn(self.frames@)
        &&& self.script_source_depth == count_src(self.frames@)
    }
}
