// ---- C19 for the callers of the span builder: highlight_program / highlight_word_piece (highlighting.rs).
//  Release-build semantics: the two debug_assert!s of append_span are dropped (rule R2); character boundaries are the subject of unit
//  U20, here only ORDER and COVERAGE are claimed: the spans tile [0, cursor) at every step and each call advances the cursor to
//  exactly the end of the text it was given.  The tokenizer and the word parser are out of reach (PEG / hand-written state machine):
//  what they return is ASSUMED well-formed — token offsets inside the text and pairwise disjoint (NOT ordered: see tokens_sortable),
//  nested pieces inside their parent and ordered, and the text of a `$(..)` substitution fitting between its delimiters (a backquoted
//  one is highlighted from the raw slice of the line, so its parsed text only matters when that slice cannot be taken).
pub open spec fn tiles(spans: Seq<HighlightSpan>, cur: int) -> bool {
    &&& (spans.len() == 0 ==> cur == 0)
    &&& (spans.len() > 0 ==> spans[0].range.start == 0 && spans.last().range.end == cur)
    &&& forall|i: int| #![auto] 0 <= i < spans.len() ==> spans[i].range.start < spans[i].range.end
    &&& forall|i: int| #![auto] 0 <= i < spans.len() - 1 ==> spans[i].range.end == spans[i + 1].range.start
}
#[verifier::external_body] pub struct Shell { _p: u8 }
#[verifier::external_body] pub struct ParserOptions { _p: u8 }
#[verifier::external_body] pub struct TokenizerOptions { _p: u8 }
impl Shell { #[verifier::external_body] pub fn parser_options(&self) -> ParserOptions { unimplemented!() } }
impl ParserOptions { #[verifier::external_body] pub fn tokenizer_options(&self) -> TokenizerOptions { unimplemented!() } }
// std: String::len is the length in bytes
pub assume_specification [String::len] (s: &String) -> (r: usize) ensures r == byte_len(s@);
// projections of brush-parser source.rs / tokenizer.rs (Arc erased: read-only data)
pub struct SourcePosition { pub index: usize, pub line: usize, pub column: usize }
pub struct SourceSpan { pub start: SourcePosition, pub end: SourcePosition }
impl SourceSpan {
    // source.rs SourceSpan::length: `self.end.index - self.start.index` (characters)
    pub fn length(&self) -> (r: usize) requires self.start.index <= self.end.index ensures r == self.end.index - self.start.index { self.end.index - self.start.index }
}
pub enum Token { Operator(String, SourceSpan), Word(String, SourceSpan) }
pub open spec fn token_span(t: Token) -> SourceSpan { match t { Token::Operator(_, l) => l, Token::Word(_, l) => l } }
// character count of a text
pub open spec fn tokens_wf(ts: Seq<Token>, nchars: int) -> bool {
    &&& forall|i: int| 0 <= i < ts.len() ==> (#[trigger] token_span(ts[i])).start.index <= token_span(ts[i]).end.index <= nchars
    &&& forall|i: int| 0 <= i < ts.len() - 1 ==> (#[trigger] token_span(ts[i])).end.index <= token_span(ts[i + 1]).start.index
}
// What is ASSUMED of the tokenizer's result.  It is NOT in source order: the tokens of a here-document (body, end tag) come right
// after the tag that introduces it, ahead of the rest of that line (highlight_program sorts by start offset first).  Assumed: every
// token lies inside the text; a token that starts before another one also ends before it starts; of two tokens with the same start the
// one yielded first is empty (the end tag of a here-document closed by the end of its line, yielded ahead of the next line's first word).
pub open spec fn tokens_sortable(ts: Seq<Token>, nchars: int) -> bool {
    &&& forall|i: int| 0 <= i < ts.len() ==> (#[trigger] token_span(ts[i])).start.index <= token_span(ts[i]).end.index <= nchars
    &&& forall|i: int, j: int| 0 <= i < ts.len() && 0 <= j < ts.len() && (#[trigger] token_span(ts[i])).start.index < (#[trigger] token_span(ts[j])).start.index
            ==> token_span(ts[i]).end.index <= token_span(ts[j]).start.index
    &&& forall|i: int, j: int| 0 <= i < j < ts.len() && (#[trigger] token_span(ts[i])).start.index == (#[trigger] token_span(ts[j])).start.index
            ==> token_span(ts[i]).end.index == token_span(ts[i]).start.index
}
// R14: `tokens.sort_by_key(|token| token.location().start.index)` — std: "This sort is stable (i.e., does not reorder equal elements)"
pub open spec fn sorted_stable_by_start(old_ts: Seq<Token>, new_ts: Seq<Token>, p: Seq<int>) -> bool {
    &&& new_ts.len() == old_ts.len() && p.len() == old_ts.len()
    &&& forall|k: int| 0 <= k < p.len() ==> 0 <= #[trigger] p[k] < old_ts.len() && new_ts[k] == old_ts[p[k]]
    &&& forall|k: int, l: int| 0 <= k < l < p.len() ==> p[k] != p[l]
    &&& forall|k: int, l: int| 0 <= k < l < p.len() ==> (#[trigger] token_span(new_ts[k])).start.index <= (#[trigger] token_span(new_ts[l])).start.index
    &&& forall|k: int, l: int| 0 <= k < l < p.len() && token_span(new_ts[k]).start.index == token_span(new_ts[l]).start.index ==> #[trigger] p[k] < #[trigger] p[l]
}
#[verifier::external_body]
pub fn sort_tokens_by_start(tokens: &mut Vec<Token>)
    ensures exists|p: Seq<int>| sorted_stable_by_start(old(tokens)@, final(tokens)@, p)
{ unimplemented!() }
pub proof fn lemma_sorted_tokens_wf(old_ts: Seq<Token>, new_ts: Seq<Token>, nchars: int)
    requires tokens_sortable(old_ts, nchars), exists|p: Seq<int>| sorted_stable_by_start(old_ts, new_ts, p)
    ensures tokens_wf(new_ts, nchars)
{
    let p = choose|p: Seq<int>| sorted_stable_by_start(old_ts, new_ts, p);
    assert forall|i: int| 0 <= i < new_ts.len() implies (#[trigger] token_span(new_ts[i])).start.index <= token_span(new_ts[i]).end.index <= nchars by {
        assert(new_ts[i] == old_ts[p[i]]);
    }
    assert forall|i: int| 0 <= i < new_ts.len() - 1 implies (#[trigger] token_span(new_ts[i])).end.index <= token_span(new_ts[i + 1]).start.index by {
        let a = p[i]; let b = p[i + 1];
        assert(new_ts[i] == old_ts[a] && new_ts[i + 1] == old_ts[b]);
        assert(token_span(new_ts[i]).start.index <= token_span(new_ts[i + 1]).start.index);
        if token_span(old_ts[a]).start.index < token_span(old_ts[b]).start.index {
        } else {
            assert(a < b);
        }
    }
}
pub mod brush_parser {
    use vstd::prelude::*;
    pub use super::Token;
    #[verifier::external_body]
    pub fn tokenize_str_with_options(line: &str, options: &super::TokenizerOptions) -> (r: Result<Vec<super::Token>, ()>)
        ensures r is Ok ==> super::tokens_sortable(r->Ok_0@, line@.len() as int)
    { unimplemented!() }
    pub mod word {
        use vstd::prelude::*;
        pub use super::super::{WordPiece, WordPieceWithSource, TildeExpr, ParameterExpr};
        #[verifier::external_body]
        pub fn parse(text: &str, options: &super::super::ParserOptions) -> (r: Result<Vec<WordPieceWithSource>, ()>)
            ensures r is Ok ==> super::super::pieces_wf(r->Ok_0@, 0, super::super::byte_len(text@))
        { unimplemented!() }
    }
    pub mod ast { use vstd::prelude::*; #[verifier::external_body] pub struct UnexpandedArithmeticExpr { _p: u8 } }
}
#[verifier::external_body] pub struct TildeExpr { _p: u8 }
#[verifier::external_body] pub struct ParameterExpr { _p: u8 }
pub use brush_parser::ast;
// a piece lies inside [lo, hi] of its word's text; the pieces of a double-quoted sequence lie between its quotes, in order; a
// substituted command fits between `$(` / `` ` `` and the closing delimiter
pub open spec fn piece_wf(p: WordPieceWithSource, lo: int, hi: int) -> bool decreases p {
    &&& lo <= p.start_index <= p.end_index <= hi
    &&& match p.piece {
        WordPiece::DoubleQuotedSequence(subs) => {
            &&& p.start_index + 2 <= p.end_index
            &&& forall|i: int| 0 <= i < subs@.len() ==> piece_wf(#[trigger] subs@[i], p.start_index + 1, p.end_index - 1)
            &&& forall|i: int| 0 <= i < subs@.len() - 1 ==> (#[trigger] subs@[i]).end_index <= subs@[i + 1].start_index
        }
        WordPiece::GettextDoubleQuotedSequence(subs) => {
            &&& p.start_index + 2 <= p.end_index
            &&& forall|i: int| 0 <= i < subs@.len() ==> piece_wf(#[trigger] subs@[i], p.start_index + 1, p.end_index - 1)
            &&& forall|i: int| 0 <= i < subs@.len() - 1 ==> (#[trigger] subs@[i]).end_index <= subs@[i + 1].start_index
        }
        WordPiece::CommandSubstitution(cmd) => p.start_index + 2 + byte_len(cmd@) + 1 <= p.end_index,
        WordPiece::BackquotedCommandSubstitution(cmd) => p.start_index + 1 + byte_len(cmd@) + 1 <= p.end_index,
        _ => true,
    }
}
pub open spec fn pieces_wf(ps: Seq<WordPieceWithSource>, lo: int, hi: int) -> bool {
    &&& lo <= hi
    &&& forall|i: int| 0 <= i < ps.len() ==> piece_wf(#[trigger] ps[i], lo, hi)
    &&& forall|i: int| 0 <= i < ps.len() - 1 ==> (#[trigger] ps[i]).end_index <= ps[i + 1].start_index
}
// R14 stubs for the char-index -> byte-offset table of highlight_program
#[verifier::external_body]
pub struct CharByteOffsets { _p: u8 }
impl CharByteOffsets {
    pub uninterp spec fn text(&self) -> Seq<char>;
}
#[verifier::external_body]
pub fn char_byte_offsets_of(line: &str) -> (r: CharByteOffsets) ensures r.text() == line@ { unimplemented!() }
// byte offset of the char_offset-th character (the end of the text for anything beyond it)
pub open spec fn byte_offset_spec(text: Seq<char>, char_offset: int) -> int { byte_len(text.take(if char_offset <= text.len() { char_offset } else { text.len() as int })) }
#[verifier::external_body]
pub fn byte_offset_of(table: &CharByteOffsets, char_offset: usize) -> (r: usize) ensures r == byte_offset_spec(table.text(), char_offset as int) { unimplemented!() }
// line.get(a..b).unwrap_or(""): the bytes a..b when both are character boundaries and a <= b, else the empty string
#[verifier::external_body]
pub fn str_get_or_empty<'a>(line: &'a str, a: usize, b: usize) -> (r: &'a str)
    ensures byte_len(r@) <= (if a <= b { b - a } else { 0 }) as int
{ unimplemented!() }
// input_line.get(a..b).unwrap_or(fallback): the bytes a..b when a <= b <= len and both are character boundaries, else the fallback
#[verifier::external_body]
pub fn str_get_or<'a>(line: &'a str, a: usize, b: usize, fallback: &'a str) -> (r: &'a str)
    ensures r@ == fallback@ || (a <= b && byte_len(r@) == b - a)
{ unimplemented!() }
pub proof fn lemma_byte_offset_monotone(text: Seq<char>, a: int, b: int)
    requires 0 <= a <= b,
    ensures byte_offset_spec(text, a) <= byte_offset_spec(text, b) <= byte_len(text),
{
    let ca = if a <= text.len() { a } else { text.len() as int };
    let cb = if b <= text.len() { b } else { text.len() as int };
    lemma_byte_len_take(text, ca, cb);
    lemma_byte_len_take(text, cb, text.len() as int);
    assert(text.take(text.len() as int) =~= text);
}
pub axiom fn axiom_str_fits_usize(s: &str) ensures byte_len(s@) <= isize::MAX;
// R14: a trim (trim_start_matches, trim, ..) applied to the raw slice: some sub-slice of it, nothing more is known
#[verifier::external_body]
pub fn str_some_trimmed<'a>(s: &'a str) -> (r: &'a str) ensures exists|a: int, b: int| 0 <= a <= b <= s@.len() && r@ == s@.subrange(a, b) { unimplemented!() }
