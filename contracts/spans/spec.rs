pub uninterp spec fn range_is_empty_spec<Idx>(r: std::ops::Range<Idx>) -> bool;
pub assume_specification<Idx> [std::ops::Range::<Idx>::is_empty] (r: &std::ops::Range<Idx>) -> (e: bool)
    where Idx: std::cmp::PartialOrd + std::cmp::PartialOrd,
    ensures e == range_is_empty_spec(*r);
pub broadcast axiom fn axiom_range_is_empty_usize(r: std::ops::Range<usize>)
    ensures #[trigger] range_is_empty_spec(r) == !(r.start < r.end);

// context stub: the shell is never inspected by the span builder
#[verifier::external_body]
pub struct Shell { _p: u8 }

// `str::is_char_boundary` of the debug_assert!s (rule R9): uninterpreted — the builder must only *preserve* it
pub uninterp spec fn is_boundary(line: Seq<char>, i: int) -> bool;

// C19: spans are ordered, contiguous, non-overlapping, non-empty and cover [0, cur)
pub open spec fn spans_wf(spans: Seq<HighlightSpan>, cur: int, line: Seq<char>) -> bool {
    &&& (spans.len() == 0 ==> cur == 0)
    &&& (spans.len() > 0 ==> spans[0].range.start == 0 && spans.last().range.end == cur)
    &&& forall|i: int| #![auto] 0 <= i < spans.len() ==> spans[i].range.start < spans[i].range.end
            && is_boundary(line, spans[i].range.start as int) && is_boundary(line, spans[i].range.end as int)
    &&& forall|i: int| #![auto] 0 <= i < spans.len() - 1 ==> spans[i].range.end == spans[i + 1].range.start
}

// consequence (C19 "cover the line"): once the cursor has reached the end of the line the spans tile [0, len)
pub proof fn lemma_cover(spans: Seq<HighlightSpan>, cur: int, line: Seq<char>, p: int)
    requires spans_wf(spans, cur, line), 0 <= p < cur,
    ensures exists|i: int| 0 <= i < spans.len() && (#[trigger] spans[i]).range.start <= p < spans[i].range.end,
    decreases spans.len()
{
    if spans.len() > 0 {
        let last = spans.last();
        if last.range.start <= p {
            assert(spans[spans.len() - 1].range.start <= p < spans[spans.len() - 1].range.end);
        } else {
            let pre = spans.drop_last();
            assert(pre.len() > 0) by { if pre.len() == 0 { assert(spans[0].range.start == 0); } }
            assert(spans_wf(pre, last.range.start as int, line)) by {
                assert(spans[spans.len() - 2].range.end == spans[spans.len() - 2 + 1].range.start);
                assert forall|i: int| #![auto] 0 <= i < pre.len() - 1 implies pre[i].range.end == pre[i + 1].range.start by {
                    assert(spans[i].range.end == spans[i + 1].range.start);
                }
            }
            lemma_cover(pre, last.range.start as int, line, p);
            let i = choose|i: int| 0 <= i < pre.len() && (#[trigger] pre[i]).range.start <= p < pre[i].range.end;
            assert(spans[i].range.start <= p < spans[i].range.end);
        }
    }
}
