// ---- C19 "aligned to character boundaries" for the callers of the span builder (highlight_program / highlight_word_piece).
//  This unit looks at ALIGNMENT only (order and coverage are unit U20c, the builder itself unit U20): every offset handed to
//  append_span / skip_ahead is a character boundary of the input line.  The builder methods are stubs that REQUIRE that (in a debug
//  build append_span asserts it).  The argument: highlight_program is always given a text that IS the slice of the input line starting
//  at the byte offset it is given (is_slice); token offsets are character indices of that text, turned into byte offsets by a table of
//  its character starts; piece offsets of the word parser are ASSUMED to be character boundaries of the word text, with the one-byte
//  delimiters `$(`, `` ` `` and `)` where the code steps over them, and the text of a `$(..)` substitution ASSUMED to be the text after
//  its two-byte opening (unit U38 proves that capture for the grammar rule).
// std: String::len is the length in bytes
pub assume_specification [String::len] (s: &String) -> (r: usize) ensures r == byte_len(s@);
#[verifier::external_body] pub struct Shell { _p: u8 }
#[verifier::external_body] pub struct ParserOptions { _p: u8 }
#[verifier::external_body] pub struct TokenizerOptions { _p: u8 }
impl Shell { #[verifier::external_body] pub fn parser_options(&self) -> ParserOptions { unimplemented!() } }
impl ParserOptions { #[verifier::external_body] pub fn tokenizer_options(&self) -> TokenizerOptions { unimplemented!() } }
pub struct SourcePosition { pub index: usize, pub line: usize, pub column: usize }
pub struct SourceSpan { pub start: SourcePosition, pub end: SourcePosition }
pub enum Token { Operator(String, SourceSpan), Word(String, SourceSpan) }
pub open spec fn token_span(t: Token) -> SourceSpan { match t { Token::Operator(_, l) => l, Token::Word(_, l) => l } }
#[verifier::external_body] pub struct TildeExpr { _p: u8 }
#[verifier::external_body] pub struct ParameterExpr { _p: u8 }
// `text` is the part of `input` that starts at byte offset `off`
pub open spec fn is_slice_at(input: Seq<char>, off: int, text: Seq<char>, n0: int) -> bool {
    boundary_at(input, off, n0) && n0 + text.len() <= input.len() && input.subrange(n0, n0 + text.len()) == text
}
pub open spec fn is_slice(input: Seq<char>, off: int, text: Seq<char>) -> bool { exists|n0: int| is_slice_at(input, off, text, n0) }
pub proof fn lemma_take_split(input: Seq<char>, text: Seq<char>, n0: int, n: int)
    requires 0 <= n0, n0 + text.len() <= input.len(), input.subrange(n0, n0 + text.len()) == text, 0 <= n <= text.len()
    ensures byte_len(input.take(n0 + n)) == byte_len(input.take(n0)) + byte_len(text.take(n))
{
    assert(input.take(n0 + n) =~= input.take(n0) + text.take(n)) by {
        assert forall|i: int| 0 <= i < n0 + n implies input.take(n0 + n)[i] == (input.take(n0) + text.take(n))[i] by {
            if i >= n0 { assert(text[i - n0] == input.subrange(n0, n0 + text.len())[i - n0]); }
        }
    }
    lemma_byte_len_concat(input.take(n0), text.take(n));
}
// a boundary of the slice is a boundary of the whole
pub proof fn lemma_boundary_lifts(input: Seq<char>, off: int, text: Seq<char>, k: int)
    requires is_slice(input, off, text), boundary(text, k)
    ensures boundary(input, off + k)
{
    let n0 = choose|n0: int| is_slice_at(input, off, text, n0);
    let n = choose|n: int| boundary_at(text, k, n);
    lemma_take_split(input, text, n0, n);
    assert(boundary_at(input, off + k, n0 + n));
}
// a slice of a slice is a slice
pub proof fn lemma_slice_of_slice(input: Seq<char>, off: int, text: Seq<char>, off2: int, t2: Seq<char>)
    requires is_slice(input, off, text), is_slice(text, off2, t2)
    ensures is_slice(input, off + off2, t2)
{
    let n0 = choose|n0: int| is_slice_at(input, off, text, n0);
    let n1 = choose|n1: int| is_slice_at(text, off2, t2, n1);
    lemma_take_split(input, text, n0, n1);
    assert(input.subrange(n0 + n1, n0 + n1 + t2.len()) =~= t2) by {
        assert forall|i: int| 0 <= i < t2.len() implies input.subrange(n0 + n1, n0 + n1 + t2.len())[i] == t2[i] by {
            assert(t2[i] == text.subrange(n1, n1 + t2.len())[i]);
            assert(text[n1 + i] == input.subrange(n0, n0 + text.len())[n1 + i]);
        }
    }
    assert(is_slice_at(input, off + off2, t2, n0 + n1));
}
pub proof fn lemma_whole_is_slice(text: Seq<char>) ensures is_slice(text, 0, text), boundary(text, 0), boundary(text, byte_len(text))
{
    assert(text.take(0) =~= Seq::<char>::empty());
    assert(text.subrange(0, text.len() as int) =~= text);
    assert(is_slice_at(text, 0, text, 0));
    assert(boundary_at(text, 0, 0));
    assert(text.take(text.len() as int) =~= text);
    assert(boundary_at(text, byte_len(text), text.len() as int));
}
// what is ASSUMED of the word parser about alignment (see the head of this file)
pub open spec fn piece_al(p: WordPieceWithSource, text: Seq<char>) -> bool decreases p {
    &&& boundary(text, p.start_index as int) && boundary(text, p.end_index as int) && p.start_index <= p.end_index
    &&& match p.piece {
        WordPiece::DoubleQuotedSequence(subs) => forall|i: int| 0 <= i < subs@.len() ==> piece_al(#[trigger] subs@[i], text),
        WordPiece::GettextDoubleQuotedSequence(subs) => forall|i: int| 0 <= i < subs@.len() ==> piece_al(#[trigger] subs@[i], text),
        WordPiece::CommandSubstitution(cmd) => is_slice(text, p.start_index + 2, cmd@),
        WordPiece::BackquotedCommandSubstitution(cmd) => p.start_index + 2 <= p.end_index && boundary(text, p.start_index + 1) && boundary(text, p.end_index - 1),
        _ => true,
    }
}
pub mod brush_parser {
    use vstd::prelude::*;
    pub use super::Token;
    #[verifier::external_body]
    pub fn tokenize_str_with_options(line: &str, options: &super::TokenizerOptions) -> (r: Result<Vec<super::Token>, ()>) { unimplemented!() }
    pub mod word {
        use vstd::prelude::*;
        pub use super::super::{WordPiece, WordPieceWithSource, TildeExpr, ParameterExpr};
        #[verifier::external_body]
        pub fn parse(text: &str, options: &super::super::ParserOptions) -> (r: Result<Vec<WordPieceWithSource>, ()>)
            ensures r is Ok ==> forall|i: int| 0 <= i < r->Ok_0@.len() ==> super::super::piece_al(#[trigger] r->Ok_0@[i], text@)
        { unimplemented!() }
    }
    pub mod ast { use vstd::prelude::*; #[verifier::external_body] pub struct UnexpandedArithmeticExpr { _p: u8 } }
}
pub use brush_parser::ast;
// R14 stubs for the char-index -> byte-offset table of highlight_program
#[verifier::external_body]
pub struct CharByteOffsets { _p: u8 }
impl CharByteOffsets { pub uninterp spec fn text(&self) -> Seq<char>; }
#[verifier::external_body]
pub fn char_byte_offsets_of(line: &str) -> (r: CharByteOffsets) ensures r.text() == line@ { unimplemented!() }
// the table holds the byte offset at which each character starts, and the length of the text for anything beyond them
pub open spec fn byte_offset_spec(text: Seq<char>, char_offset: int) -> int { byte_len(text.take(if char_offset <= text.len() { char_offset } else { text.len() as int })) }
#[verifier::external_body]
pub fn byte_offset_of(table: &CharByteOffsets, char_offset: usize) -> (r: usize) ensures r == byte_offset_spec(table.text(), char_offset as int) { unimplemented!() }
pub proof fn lemma_table_entries_are_boundaries(text: Seq<char>, char_offset: int)
    requires 0 <= char_offset
    ensures boundary(text, byte_offset_spec(text, char_offset))
{
    let n = if char_offset <= text.len() { char_offset } else { text.len() as int };
    assert(boundary_at(text, byte_offset_spec(text, char_offset), n));
}
// str::get(a..b): Some exactly when a <= b <= len and both are character boundaries, and then it is that part of the text
#[verifier::external_body]
pub fn str_get_or_empty<'a>(line: &'a str, a: usize, b: usize) -> (r: &'a str)
    ensures (a <= b && boundary(line@, a as int) && boundary(line@, b as int)) ==> is_slice(line@, a as int, r@) && byte_len(r@) == b - a,
        !(a <= b && boundary(line@, a as int) && boundary(line@, b as int)) ==> r@.len() == 0
{ unimplemented!() }
#[verifier::external_body]
pub fn str_get_or<'a>(line: &'a str, a: usize, b: usize, fallback: &'a str) -> (r: &'a str)
    ensures (a <= b && boundary(line@, a as int) && boundary(line@, b as int)) ==> is_slice(line@, a as int, r@) && byte_len(r@) == b - a,
        !(a <= b && boundary(line@, a as int) && boundary(line@, b as int)) ==> r@ == fallback@
{ unimplemented!() }
#[verifier::external_body]
pub fn sort_tokens_by_start(tokens: &mut Vec<Token>) { unimplemented!() }
pub axiom fn axiom_str_fits_usize(s: &str) ensures byte_len(s@) <= isize::MAX;
pub proof fn lemma_slice_fits(input: Seq<char>, off: int, text: Seq<char>)
    requires is_slice(input, off, text)
    ensures 0 <= off, off + byte_len(text) <= byte_len(input)
{
    let n0 = choose|n0: int| is_slice_at(input, off, text, n0);
    lemma_take_split(input, text, n0, text.len() as int);
    assert(text.take(text.len() as int) =~= text);
    lemma_byte_len_take(input, n0 + text.len(), input.len() as int);
    assert(input.take(input.len() as int) =~= input);
    lemma_byte_len_nonneg(input.take(n0));
}
pub proof fn lemma_boundary_within(text: Seq<char>, k: int)
    requires boundary(text, k)
    ensures 0 <= k <= byte_len(text)
{
    let n = choose|n: int| boundary_at(text, k, n);
    lemma_byte_len_take(text, n, text.len() as int);
    assert(text.take(text.len() as int) =~= text);
    lemma_byte_len_nonneg(text.take(n));
}
pub proof fn lemma_empty_is_slice(input: Seq<char>, off: int, t: Seq<char>)
    requires boundary(input, off), t.len() == 0
    ensures is_slice(input, off, t)
{
    let n = choose|n: int| boundary_at(input, off, n);
    assert(input.subrange(n, n + 0) =~= t);
    assert(is_slice_at(input, off, t, n));
}
// R14: a trim (trim_start_matches, trim, ..) applied to the raw slice: some sub-slice of it, nothing more is known
#[verifier::external_body]
pub fn str_some_trimmed<'a>(s: &'a str) -> (r: &'a str) ensures exists|a: int, b: int| 0 <= a <= b <= s@.len() && r@ == s@.subrange(a, b) { unimplemented!() }
