// ---- C17 (job table only): "none run twice or lost, and live jobs carry distinct job numbers".
pub mod sys { pub mod process { pub type ProcessId = i32; } }
pub mod error {
    use vstd::prelude::*;
    #[verifier::external_body]
    pub struct Error { _p: u8 }
}
#[verifier::external_body]
pub struct JobTask { _p: u8 }
#[verifier::external_body]
pub struct ExecutionResult { _p: u8 }
impl ExecutionResult {
    #[verifier::external_body] pub fn success() -> Self { unimplemented!() }
    // what a job's result says about control flow is of no concern to the table: arbitrary answers
    #[verifier::external_body] pub fn is_return_or_exit(&self) -> bool { unimplemented!() }
    #[verifier::external_body] pub fn is_normal_flow(&self) -> bool { unimplemented!() }
    #[verifier::external_body] pub fn is_success(&self) -> bool { unimplemented!() }
}
pub type JobResult = (Job, Result<ExecutionResult, error::Error>);
pub assume_specification<T, A: std::alloc::Allocator> [std::collections::VecDeque::<T, A>::is_empty] (v: &std::collections::VecDeque<T, A>) -> (r: bool)
    ensures r == (v@.len() == 0);

pub open spec fn ids_distinct(js: Seq<Job>) -> bool { forall|i: int, j: int| 0 <= i < j < js.len() ==> js[i].id != js[j].id }
pub open spec fn ids_positive(js: Seq<Job>) -> bool { forall|i: int| 0 <= i < js.len() ==> (#[trigger] js[i]).id >= 1 }
pub open spec fn at_most_one_current(js: Seq<Job>) -> bool { forall|i: int, j: int| 0 <= i < j < js.len() ==> !(js[i].annotation is Current && js[j].annotation is Current) }
pub open spec fn no_current(js: Seq<Job>) -> bool { forall|i: int| 0 <= i < js.len() ==> !((#[trigger] js[i]).annotation is Current) }
// s is what remains of t after removing some elements, order kept: a subsequence given by a strictly increasing index map
pub open spec fn is_subseq_by(s: Seq<Job>, t: Seq<Job>, f: Seq<int>) -> bool {
    &&& f.len() == s.len()
    &&& forall|i: int| 0 <= i < s.len() ==> 0 <= #[trigger] f[i] < t.len() && s[i] == t[f[i]]
    &&& forall|i: int, j: int| 0 <= i < j < s.len() ==> f[i] < f[j]
}
pub open spec fn ids_subseq_by(s: Seq<Job>, t: Seq<Job>, f: Seq<int>) -> bool {
    &&& f.len() == s.len()
    &&& forall|i: int| 0 <= i < s.len() ==> 0 <= #[trigger] f[i] < t.len() && s[i].id == t[f[i]].id
    &&& forall|i: int, j: int| 0 <= i < j < s.len() ==> f[i] < f[j]
}
pub proof fn lemma_ids_subseq_distinct(s: Seq<Job>, t: Seq<Job>, f: Seq<int>)
    requires ids_subseq_by(s, t, f), ids_distinct(t),
    ensures ids_distinct(s),
{
    assert forall|i: int, j: int| 0 <= i < j < s.len() implies s[i].id != s[j].id by {
        assert(s[i].id == t[f[i]].id && s[j].id == t[f[j]].id && f[i] < f[j]);
    }
}
pub proof fn lemma_subseq_distinct(s: Seq<Job>, t: Seq<Job>, f: Seq<int>)
    requires is_subseq_by(s, t, f), ids_distinct(t),
    ensures ids_distinct(s),
{
    assert forall|i: int, j: int| 0 <= i < j < s.len() implies s[i].id != s[j].id by {
        assert(s[i] == t[f[i]] && s[j] == t[f[j]] && f[i] < f[j]);
    }
}
// s's jobs are distinct jobs of t (identity kept), in any order: an injective index map
pub open spec fn is_inj_by(s: Seq<Job>, t: Seq<Job>, f: Seq<int>) -> bool {
    &&& f.len() == s.len()
    &&& forall|i: int| 0 <= i < s.len() ==> 0 <= #[trigger] f[i] < t.len() && s[i] == t[f[i]]
    &&& forall|i: int, j: int| 0 <= i < j < s.len() ==> f[i] != f[j]
}
pub open spec fn ids_inj_by(s: Seq<Job>, t: Seq<Job>, f: Seq<int>) -> bool {
    &&& f.len() == s.len()
    &&& forall|i: int| 0 <= i < s.len() ==> 0 <= #[trigger] f[i] < t.len() && s[i].id == t[f[i]].id
    &&& forall|i: int, j: int| 0 <= i < j < s.len() ==> f[i] != f[j]
}
pub open spec fn ids_sorted(js: Seq<Job>) -> bool { forall|i: int, j: int| 0 <= i < j < js.len() ==> js[i].id < js[j].id }
pub open spec fn same_ids(a: Seq<Job>, b: Seq<Job>) -> bool { a.len() == b.len() && forall|i: int| #![trigger a[i]] #![trigger b[i]] 0 <= i < a.len() ==> a[i].id == b[i].id }
// a job `wait` is done with: all its tasks were awaited to completion, or it reported Stopped
pub open spec fn awaited(j: Job) -> bool { j.tasks@.len() == 0 || j.state is Stopped }
pub assume_specification<T, U, F: FnOnce(T) -> U> [std::option::Option::<T>::map_or] (o: Option<T>, d: U, f: F) -> (r: U)
    requires o is Some ==> f.requires((o->0,)),
    ensures o is None ==> r == d, o is Some ==> f.ensures((o->0,), r);
impl Job {
    // polling a job: may drain its tasks and mark it Done; id and annotation are never touched (PROVED for the real body in unit U18b)
    #[verifier::external_body]
    pub fn poll_done(&mut self) -> (r: Result<Option<Result<ExecutionResult, error::Error>>, error::Error>)
        ensures final(self).id == old(self).id, final(self).annotation == old(self).annotation,
            (r is Ok && r->Ok_0 is Some) ==> final(self).state is Done && final(self).tasks@.len() == 0,
    { unimplemented!() }
    // Job::wait (jobs.rs; PROVED for the real body in unit U18b): awaits the tasks back to front, popping each completed one; returns Ok once none is left (state Done)
    // or as soon as one reports Stopped (state Stopped); `?` on a task error.  id and annotation are never touched.
    #[verifier::external_body]
    pub fn wait(&mut self) -> (r: Result<ExecutionResult, error::Error>)
        ensures final(self).id == old(self).id, final(self).annotation == old(self).annotation,
            r is Ok ==> (final(self).tasks@.len() == 0 && final(self).state is Done) || final(self).state is Stopped,
    { unimplemented!() }
}
// ---- proof library for the table operations (Seq::remove / swap_remove keep an injective map injective; invariants depend on ids only)
pub proof fn lemma_inv_depends_on_ids_only() { }
pub proof fn lemma_same_ids_inv(a: Seq<Job>, b: Seq<Job>)
    requires same_ids(a, b), table_inv(b),
    ensures table_inv(a),
{
    assert forall|i: int, j: int| 0 <= i < j < a.len() implies (a[i].id != a[j].id && (ids_sorted(b) ==> a[i].id < a[j].id)) by {
        assert(a[i].id == b[i].id && a[j].id == b[j].id);
    }
}
pub proof fn lemma_same_ids_map(a: Seq<Job>, b: Seq<Job>, t: Seq<Job>, f: Seq<int>)
    requires a.len() == b.len(), forall|k: int| 0 <= k < a.len() ==> (#[trigger] b[k]).id == a[k].id, ids_inj_by(a, t, f),
    ensures ids_inj_by(b, t, f), same_ids(b, a),
{
    assert forall|k: int| 0 <= k < b.len() implies 0 <= #[trigger] f[k] < t.len() && b[k].id == t[f[k]].id by { assert(b[k].id == a[k].id); }
}
pub proof fn lemma_remove_inj(before: Seq<Job>, after: Seq<Job>, t: Seq<Job>, f0: Seq<int>, f1: Seq<int>, i: int)
    requires 0 <= i < before.len(), after =~= before.remove(i), is_inj_by(before, t, f0), f1 == f0.remove(i), table_inv(t) ==> table_inv(before),
    ensures is_inj_by(after, t, f1), table_inv(t) ==> table_inv(after),
{
    assert forall|a: int| 0 <= a < after.len() implies 0 <= #[trigger] f1[a] < t.len() && after[a] == t[f1[a]] by {
        if a < i { assert(f1[a] == f0[a]); } else { assert(f1[a] == f0[a + 1]); }
    }
    assert forall|a: int, b: int| 0 <= a < b < after.len() implies f1[a] != f1[b] by {
        let a2 = if a < i { a } else { a + 1 }; let b2 = if b < i { b } else { b + 1 };
        assert(f1[a] == f0[a2] && f1[b] == f0[b2] && a2 < b2);
    }
    if table_inv(t) { lemma_remove_keeps_inv(before, after, i); }
}
pub proof fn lemma_remove_keeps_inv(before: Seq<Job>, after: Seq<Job>, i: int)
    requires 0 <= i < before.len(), after =~= before.remove(i), table_inv(before),
    ensures table_inv(after),
{
    assert forall|a: int, b: int| 0 <= a < b < after.len() implies (after[a].id != after[b].id && (ids_sorted(before) ==> after[a].id < after[b].id)) by {
        let a2 = if a < i { a } else { a + 1 }; let b2 = if b < i { b } else { b + 1 };
        assert(after[a] == before[a2] && after[b] == before[b2] && a2 < b2);
    }
}
pub proof fn lemma_remove_ids_inj(before: Seq<Job>, after: Seq<Job>, t: Seq<Job>, f0: Seq<int>, f1: Seq<int>, i: int)
    requires 0 <= i < before.len(), after =~= before.remove(i), ids_inj_by(before, t, f0), f1 == f0.remove(i), table_inv(t) ==> table_inv(before),
    ensures ids_inj_by(after, t, f1), table_inv(t) ==> table_inv(after),
{
    assert forall|a: int| 0 <= a < after.len() implies 0 <= #[trigger] f1[a] < t.len() && after[a].id == t[f1[a]].id by {
        if a < i { assert(f1[a] == f0[a]); } else { assert(f1[a] == f0[a + 1]); }
    }
    assert forall|a: int, b: int| 0 <= a < b < after.len() implies f1[a] != f1[b] by {
        let a2 = if a < i { a } else { a + 1 }; let b2 = if b < i { b } else { b + 1 };
        assert(f1[a] == f0[a2] && f1[b] == f0[b2] && a2 < b2);
    }
    if table_inv(t) { lemma_remove_keeps_inv(before, after, i); }
}
// Vec::swap_remove(i): element i is replaced by the last one, the last slot is dropped
pub proof fn lemma_swap_remove_keeps_distinct(before: Seq<Job>, after: Seq<Job>, i: int)
    requires 0 <= i < before.len(), after =~= before.update(i, before.last()).drop_last(), ids_distinct(before),
    ensures ids_distinct(after),
{
    assert forall|a: int, b: int| 0 <= a < b < after.len() implies after[a].id != after[b].id by {
        let a2 = if a == i { before.len() - 1 } else { a }; let b2 = if b == i { before.len() - 1 } else { b };
        assert(after[a] == before[a2] && after[b] == before[b2] && a2 != b2);
        if a2 < b2 { assert(before[a2].id != before[b2].id); } else { assert(before[b2].id != before[a2].id); }
    }
}
pub proof fn lemma_swap_remove_inj(before: Seq<Job>, after: Seq<Job>, t: Seq<Job>, f0: Seq<int>, f1: Seq<int>, i: int)
    requires 0 <= i < before.len(), after =~= before.update(i, before.last()).drop_last(), is_inj_by(before, t, f0),
        f1 == f0.update(i, f0.last()).drop_last(),
    ensures is_inj_by(after, t, f1),
{
    assert forall|a: int| 0 <= a < after.len() implies 0 <= #[trigger] f1[a] < t.len() && after[a] == t[f1[a]] by {
        if a == i { assert(f1[a] == f0[f0.len() - 1]); } else { assert(f1[a] == f0[a]); }
    }
    assert forall|a: int, b: int| 0 <= a < b < after.len() implies f1[a] != f1[b] by {
        let a2 = if a == i { before.len() - 1 } else { a }; let b2 = if b == i { before.len() - 1 } else { b };
        assert(f1[a] == f0[a2] && f1[b] == f0[b2] && a2 != b2);
        if a2 < b2 { assert(f0[a2] != f0[b2]); } else { assert(f0[b2] != f0[a2]); }
    }
}
pub proof fn lemma_swap_remove_ids_inj(before: Seq<Job>, after: Seq<Job>, t: Seq<Job>, f0: Seq<int>, f1: Seq<int>, i: int)
    requires 0 <= i < before.len(), after =~= before.update(i, before.last()).drop_last(), ids_inj_by(before, t, f0),
        f1 == f0.update(i, f0.last()).drop_last(),
    ensures ids_inj_by(after, t, f1),
{
    assert forall|a: int| 0 <= a < after.len() implies 0 <= #[trigger] f1[a] < t.len() && after[a].id == t[f1[a]].id by {
        if a == i { assert(f1[a] == f0[f0.len() - 1]); } else { assert(f1[a] == f0[a]); }
    }
    assert forall|a: int, b: int| 0 <= a < b < after.len() implies f1[a] != f1[b] by {
        let a2 = if a == i { before.len() - 1 } else { a }; let b2 = if b == i { before.len() - 1 } else { b };
        assert(f1[a] == f0[a2] && f1[b] == f0[b2] && a2 != b2);
        if a2 < b2 { assert(f0[a2] != f0[b2]); } else { assert(f0[b2] != f0[a2]); }
    }
}
