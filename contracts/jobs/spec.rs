// ---- C17 (job table only): "none run twice or lost, and live jobs carry distinct job numbers".
pub mod sys { pub mod process { pub type ProcessId = i32; } }
pub mod error {
    use vstd::prelude::*;
    #[verifier::external_body]
    pub struct Error { _p: u8 }
}
#[verifier::external_body]
pub struct JobTask { _p: u8 }
#[verifier::external_body]
pub struct ExecutionResult { _p: u8 }
impl ExecutionResult { #[verifier::external_body] pub fn success() -> Self { unimplemented!() } }
pub type JobResult = (Job, Result<ExecutionResult, error::Error>);
pub assume_specification<T, A: std::alloc::Allocator> [std::collections::VecDeque::<T, A>::is_empty] (v: &std::collections::VecDeque<T, A>) -> (r: bool)
    ensures r == (v@.len() == 0);

pub open spec fn ids_distinct(js: Seq<Job>) -> bool { forall|i: int, j: int| 0 <= i < j < js.len() ==> js[i].id != js[j].id }
pub open spec fn ids_positive(js: Seq<Job>) -> bool { forall|i: int| 0 <= i < js.len() ==> (#[trigger] js[i]).id >= 1 }
pub open spec fn at_most_one_current(js: Seq<Job>) -> bool { forall|i: int, j: int| 0 <= i < j < js.len() ==> !(js[i].annotation is Current && js[j].annotation is Current) }
pub open spec fn no_current(js: Seq<Job>) -> bool { forall|i: int| 0 <= i < js.len() ==> !((#[trigger] js[i]).annotation is Current) }
// s is what remains of t after removing some elements, order kept: a subsequence given by a strictly increasing index map
pub open spec fn is_subseq_by(s: Seq<Job>, t: Seq<Job>, f: Seq<int>) -> bool {
    &&& f.len() == s.len()
    &&& forall|i: int| 0 <= i < s.len() ==> 0 <= #[trigger] f[i] < t.len() && s[i] == t[f[i]]
    &&& forall|i: int, j: int| 0 <= i < j < s.len() ==> f[i] < f[j]
}
pub open spec fn ids_subseq_by(s: Seq<Job>, t: Seq<Job>, f: Seq<int>) -> bool {
    &&& f.len() == s.len()
    &&& forall|i: int| 0 <= i < s.len() ==> 0 <= #[trigger] f[i] < t.len() && s[i].id == t[f[i]].id
    &&& forall|i: int, j: int| 0 <= i < j < s.len() ==> f[i] < f[j]
}
pub proof fn lemma_ids_subseq_distinct(s: Seq<Job>, t: Seq<Job>, f: Seq<int>)
    requires ids_subseq_by(s, t, f), ids_distinct(t),
    ensures ids_distinct(s),
{
    assert forall|i: int, j: int| 0 <= i < j < s.len() implies s[i].id != s[j].id by {
        assert(s[i].id == t[f[i]].id && s[j].id == t[f[j]].id && f[i] < f[j]);
    }
}
pub proof fn lemma_subseq_distinct(s: Seq<Job>, t: Seq<Job>, f: Seq<int>)
    requires is_subseq_by(s, t, f), ids_distinct(t),
    ensures ids_distinct(s),
{
    assert forall|i: int, j: int| 0 <= i < j < s.len() implies s[i].id != s[j].id by {
        assert(s[i] == t[f[i]] && s[j] == t[f[j]] && f[i] < f[j]);
    }
}
impl Job {
    // polling a job: may drain its tasks and mark it Done; id and annotation are never touched
    #[verifier::external_body]
    pub fn poll_done(&mut self) -> (r: Result<Option<Result<ExecutionResult, error::Error>>, error::Error>)
        ensures final(self).id == old(self).id, final(self).annotation == old(self).annotation,
            (r is Ok && r->Ok_0 is Some) ==> final(self).state is Done && final(self).tasks@.len() == 0,
    { unimplemented!() }
}
