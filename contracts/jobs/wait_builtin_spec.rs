// ---- prelude: the `wait` builtin (brush-builtins/src/wait.rs WaitCommand::execute).  C17: "`wait` returns only after every job it
//  covers has finished ... none run twice or lost".  The job table (JobManager.jobs, a public field) may only lose jobs through
//  JobManager's own sweep (unit U18): `wait %n` awaits the job it resolves and removes NOTHING; plain `wait` goes through wait_all.
pub mod sys { pub mod process { pub type ProcessId = i32; } }
pub mod brush_core { use vstd::prelude::*; #[verifier::external_body] pub struct Error { _p: u8 } }
pub mod error {
    use vstd::prelude::*;
    #[verifier::external_body]
    pub fn unimp<T>(msg: &'static str) -> (r: Result<T, super::brush_core::Error>) ensures r is Err { unimplemented!() }
}
#[verifier::external_body] pub struct JobTask { _p: u8 }
pub struct ExecutionResult { pub ok: bool, pub normal_flow: bool }      // projection: success, and "no exit / return / break request pending"
impl ExecutionResult { pub fn success() -> (r: Self) ensures r.normal_flow { Self { ok: true, normal_flow: true } } }
pub enum ExecutionExitCode { GeneralError }                                   // projection (variant checked)
impl vstd::std_specs::convert::FromSpecImpl<ExecutionExitCode> for ExecutionResult {
    open spec fn obeys_from_spec() -> bool { false }
    open spec fn from_spec(c: ExecutionExitCode) -> Self { arbitrary() }     // (results.rs: a plain status, no control flow: stated on the impl)
}
impl From<ExecutionExitCode> for ExecutionResult { #[verifier::external_body] fn from(c: ExecutionExitCode) -> (r: Self) ensures r.normal_flow { unimplemented!() } }
pub struct RuntimeOptionsP { pub enable_job_control: bool }
pub struct JobManager { pub jobs: Vec<Job>, pub all_waited: Ghost<nat> }       // the real struct's one public field (checked) + ghost: how often wait_all ran
pub struct Shell { pub jobs: JobManager, pub options: RuntimeOptionsP }        // projection
pub struct ExecutionContext<'a> { pub shell: &'a mut Shell }                   // projection
pub open spec fn ids(js: Seq<Job>) -> Seq<usize> { js.map_values(|j: Job| j.id) }
impl Job {
    // Job::wait: contract proved for the real body in unit U18b (id and annotation untouched)
    #[verifier::external_body]
    pub fn wait(&mut self) -> (r: Result<ExecutionResult, brush_core::Error>)
        ensures final(self).id == old(self).id
    { unimplemented!() }
}
impl JobManager {
    // resolve_job_spec: a reference to one job of the table, or None; the table's only change is what the caller does through it
    #[verifier::external_body]
    pub fn resolve_job_spec(&mut self, job_spec: &str) -> (r: Option<&mut Job>)
        ensures
            final(self).all_waited@ == old(self).all_waited@,
            r is None ==> final(self).jobs@ == old(self).jobs@,
            r is Some ==> exists|k: int| 0 <= k < old(self).jobs@.len() && *(r->Some_0) == old(self).jobs@[k] && final(self).jobs@ == old(self).jobs@.update(k, *final(r->Some_0)),
    { unimplemented!() }
    // wait_all: contract proved in unit U18 (every job awaited first; only finished jobs leave the table)
    #[verifier::external_body]
    pub fn wait_all(&mut self) -> (r: Result<Vec<Job>, brush_core::Error>)
        ensures final(self).all_waited@ == old(self).all_waited@ + 1
    { unimplemented!() }
    // accessors a fast path might consult; nothing is known about their results here
    #[verifier::external_body] pub fn current_job(&self) -> (r: Option<&Job>) { unimplemented!() }
    #[verifier::external_body] pub fn prev_job(&self) -> (r: Option<&Job>) { unimplemented!() }
}
#[verifier::external_body] pub fn vx_report_no_such_job(context: &ExecutionContext, id: &String) -> (r: Result<(), brush_core::Error>) { unimplemented!() }
#[verifier::external_body] pub fn vx_print_job(context: &ExecutionContext, job: &Job) -> (r: Result<(), brush_core::Error>) { unimplemented!() }
#[verifier::external_body] pub fn string_starts_with_char(s: &String, c: char) -> bool { unimplemented!() }
pub mod jobs { pub use super::{Job, JobState, JobAnnotation, JobManager}; }       // brush_core::jobs, as a builtin may name it
