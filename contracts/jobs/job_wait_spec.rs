// ---- prelude: one job's own `wait` and `poll_done` (brush-core/src/jobs.rs impl Job).  Unit U18 uses both through stubs
//  ("awaits the tasks back to front ... returns Ok once none is left (state Done) or as soon as one reports Stopped"); here the real
//  bodies are proved to satisfy exactly those contracts, plus: every task that is removed was awaited / polled to completion first,
//  and both loops terminate (each round removes a task or returns).
pub mod sys { pub mod process { pub type ProcessId = i32; } }
pub mod error { use vstd::prelude::*; #[verifier::external_body] pub struct Error { _p: u8 } }
#[verifier::external_body] pub struct JobTask { _p: u8 }
pub struct ExecutionResult { pub code: u8 }
impl ExecutionResult {
    #[verifier::external_body] pub fn success() -> Self { unimplemented!() }
    #[verifier::external_body] pub fn stopped() -> Self { unimplemented!() }
}
pub assume_specification<T, A: std::alloc::Allocator> [std::collections::VecDeque::<T, A>::is_empty] (v: &std::collections::VecDeque<T, A>) -> (r: bool)
    ensures r == (v@.len() == 0);
// R14: `self.tasks.back_mut()` + `task.wait().await` -> one stub: await the LAST task (it stays in the deque)
#[verifier::external_body]
pub fn vx_wait_back(tasks: &mut std::collections::VecDeque<JobTask>, awaits: &mut Ghost<nat>) -> (r: Result<JobTaskWaitResult, error::Error>)
    requires old(tasks)@.len() > 0
    ensures final(tasks)@.len() == old(tasks)@.len(), final(awaits)@ == old(awaits)@ + 1
{ unimplemented!() }
// R14: `let task = &mut self.tasks[0]; task.poll()` -> one stub: poll the FIRST task (it stays in the deque)
#[verifier::external_body]
pub fn vx_poll_front(tasks: &mut std::collections::VecDeque<JobTask>) -> (r: Option<Result<ExecutionResult, error::Error>>)
    requires old(tasks)@.len() > 0
    ensures final(tasks)@.len() == old(tasks)@.len()
{ unimplemented!() }
