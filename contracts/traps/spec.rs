// ---- C16: "ERR and EXIT handlers leave the $? of the interrupted flow unchanged and a handler never re-enters itself";
//      "a registered EXIT trap runs exactly once" for the -c front-end (run_dash_c_command) — relative to the ASSUMED frame
//      contract of run_string (it leaves the call stack as it found it) and to the CallStack contracts proved in unit U19.
// projection of traps.rs TrapSignal; OS signals opaque
#[verifier::external_body]
#[derive(Clone, Copy, PartialEq, Eq)]
pub struct Signal { _p: i32 }
#[derive(Clone, Copy, PartialEq, Eq)]
pub enum TrapSignal { Signal(Signal), Debug, Err, Exit, Return }
pub struct Error { pub e: u8 }
pub mod error { pub use super::Error; }
#[derive(Clone, Copy)] pub enum ExecutionControlFlow { Normal, ExitShell }
#[derive(Clone, Copy)] pub enum ExecutionExitCode { Success, Custom(u8) }
// projection of results.rs ExecutionResult (the executors are verified against the full type in units U1 / U4*)
pub struct ExecutionResult { pub next_control_flow: ExecutionControlFlow, pub exit_code: ExecutionExitCode }
impl ExecutionResult { pub const fn success() -> Self { Self { next_control_flow: ExecutionControlFlow::Normal, exit_code: ExecutionExitCode::Success } } }
pub enum ProcessGroupPolicy { NewProcessGroup, SameProcessGroup }
#[verifier::external_body] pub struct ParamsRest { _p: u8 }
pub struct ExecutionParameters { pub rest: ParamsRest, pub process_group_policy: ProcessGroupPolicy, pub suppress_errexit: bool }
impl Clone for ExecutionParameters { #[verifier::external_body] fn clone(&self) -> (r: Self) ensures r == *self { unimplemented!() } }
#[verifier::external_body] pub struct SourceInfo { _p: u8 }
impl SourceInfo { #[verifier::external_body] pub fn from(s: &str) -> Self { unimplemented!() } }
// projection of traps.rs TrapHandler (fields checked)
pub struct TrapHandler { pub command: String, pub source_info: SourceInfo }
impl Clone for TrapHandler { #[verifier::external_body] fn clone(&self) -> (r: Self) ensures r == *self { unimplemented!() } }

// CallStack: abstract here; the contracts are those proved for the real type in unit U19
#[verifier::external_body] pub struct CallStack { _p: u8 }
pub enum Top { CommandString, Other }
impl CallStack {
    pub uninterp spec fn active(&self, s: TrapSignal) -> bool;
    pub uninterp spec fn suppressed(&self) -> bool;
    pub uninterp spec fn depth(&self) -> nat;
    pub uninterp spec fn top_is_command_string(&self) -> bool;
    #[verifier::external_body] pub fn is_trap_signal_active(&self, signal: TrapSignal) -> (r: bool) ensures r == self.active(signal) { unimplemented!() }
    #[verifier::external_body] pub const fn is_trap_delivery_suppressed(&self) -> (r: bool) ensures r == self.suppressed() { unimplemented!() }
}
#[verifier::external_body] pub struct TrapHandlerConfig { _p: u8 }
impl TrapHandlerConfig {
    pub uninterp spec fn handler(&self, s: TrapSignal) -> Option<TrapHandler>;
    #[verifier::external_body] pub fn get_handler(&self, signal: TrapSignal) -> (r: Option<&TrapHandler>)
        ensures r is Some <==> self.handler(signal) is Some, r is Some ==> *r->Some_0 == self.handler(signal)->Some_0 { unimplemented!() }
    #[verifier::external_body] pub fn handles(&self, signal: TrapSignal) -> (r: bool) ensures r == self.handler(signal) is Some { unimplemented!() }
}
pub struct RuntimeOptions { pub shell_functions_inherit_err_trap: bool, pub shell_functions_inherit_debug_and_return_traps: bool, pub enable_job_control: bool, pub rest: ParamsRest }
// ghost log of command texts run through run_string, in an opaque part of the shell so that plain field writes do not disturb it
pub struct RunEv { pub text: Seq<char>, pub exit_due_after: bool, pub exit_cmd_after: Seq<char>, pub exempt: bool }     // exempt: the errexit exemption the text ran under
#[verifier::external_body] pub struct Rest { _p: u8 }
impl Rest { pub uninterp spec fn runs(&self) -> Seq<RunEv>; }

// projection of shell.rs Shell (fields checked)
pub struct Shell { pub call_stack: CallStack, pub traps: TrapHandlerConfig, pub last_exit_status: u8, pub last_pipeline_statuses: Vec<u8>, pub options: RuntimeOptions, pub rest: Rest }

// an EXIT handler would run now: registered, not already running, delivery not blocked
pub open spec fn exit_due(s: Shell) -> bool {
    s.traps.handler(TrapSignal::Exit) is Some && !s.call_stack.active(TrapSignal::Exit) && !s.call_stack.suppressed()
}
impl Shell {
    pub open spec fn runs(&self) -> Seq<RunEv> { self.rest.runs() }
    #[verifier::external_body] pub fn in_function(&self) -> bool { unimplemented!() }
    #[verifier::external_body] pub fn is_subshell(&self) -> bool { unimplemented!() }
    // contracts of shell/callstack.rs enter_trap_handler / leave_trap_handler = CallStack::push_trap_handler / pop (unit U19)
    #[verifier::external_body]
    pub fn enter_trap_handler(&mut self, signal: TrapSignal, handler: Option<&TrapHandler>)
        ensures final(self).call_stack.depth() == old(self).call_stack.depth() + 1,
            forall|s: TrapSignal| final(self).call_stack.active(s) == (s == signal || old(self).call_stack.active(s)),
            final(self).call_stack.suppressed() == old(self).call_stack.suppressed(),
            final(self).traps == old(self).traps, final(self).last_exit_status == old(self).last_exit_status, final(self).runs() == old(self).runs(), final(self).options == old(self).options,
    { unimplemented!() }
    #[verifier::external_body]
    pub fn leave_trap_handler(&mut self)
        requires old(self).call_stack.depth() > 0,
        ensures final(self).call_stack.depth() == old(self).call_stack.depth() - 1,
            final(self).traps == old(self).traps, final(self).last_exit_status == old(self).last_exit_status, final(self).runs() == old(self).runs(), final(self).options == old(self).options,
    { unimplemented!() }
    #[verifier::external_body]
    pub fn start_command_string_mode(&mut self)
        ensures final(self).call_stack.depth() == old(self).call_stack.depth() + 1, final(self).call_stack.top_is_command_string(),
            forall|s: TrapSignal| final(self).call_stack.active(s) == old(self).call_stack.active(s),
            final(self).call_stack.suppressed() == old(self).call_stack.suppressed(),
            final(self).traps == old(self).traps, final(self).last_exit_status == old(self).last_exit_status, final(self).runs() == old(self).runs(), final(self).options == old(self).options,
    { unimplemented!() }
    #[verifier::external_body]
    pub fn end_command_string_mode(&mut self) -> (r: Result<(), Error>)
        ensures r is Ok <==> old(self).call_stack.top_is_command_string(),
            r is Ok ==> final(self).call_stack.depth() == old(self).call_stack.depth() - 1,
            forall|s: TrapSignal| final(self).call_stack.active(s) == old(self).call_stack.active(s),
            final(self).call_stack.suppressed() == old(self).call_stack.suppressed(),
            final(self).traps == old(self).traps, final(self).last_exit_status == old(self).last_exit_status, final(self).runs() == old(self).runs(), final(self).options == old(self).options,
    { unimplemented!() }
    // ASSUMED frame contract of the interpreter: run_string leaves the call stack as it found it; it may change $?, the
    // traps and the options arbitrarily; one RunEv is logged, with a snapshot of whether an EXIT handler is due afterwards
    #[verifier::external_body]
    pub fn run_string(&mut self, command: &String, source_info: &SourceInfo, params: &ExecutionParameters) -> (r: Result<ExecutionResult, Error>)
        ensures final(self).call_stack.depth() == old(self).call_stack.depth(),
            final(self).call_stack.top_is_command_string() == old(self).call_stack.top_is_command_string(),
            forall|s: TrapSignal| final(self).call_stack.active(s) == old(self).call_stack.active(s),
            final(self).call_stack.suppressed() == old(self).call_stack.suppressed(),
            final(self).runs().len() == old(self).runs().len() + 1, final(self).runs().drop_last() == old(self).runs(),
            final(self).runs().last().text == command@,
            final(self).runs().last().exempt == params.suppress_errexit,
            final(self).runs().last().exit_due_after == exit_due(*final(self)),
            final(self).traps.handler(TrapSignal::Exit) is Some ==> final(self).runs().last().exit_cmd_after == final(self).traps.handler(TrapSignal::Exit)->Some_0.command@,
    { unimplemented!() }
}

// std pieces a status restore may be written with (documented behaviour; not used by the code today)
pub assume_specification<T: Copy> [Option::<&T>::copied] (o: Option<&T>) -> (r: Option<T>)
    ensures o is None ==> r is None, o is Some ==> r == Some(*o->Some_0);


// ---- sourcing a file (shell/execution.rs source_file): the Script frame pushed for the sourced file is popped on every exit
#[verifier::external_body] pub struct Program { _p: u8 }
#[verifier::external_body] pub struct ParseError { _p: u8 }
#[verifier::external_body] pub struct ScriptCallType { _p: u8 }
#[verifier::external_body] pub struct ScriptArgs { _p: u8 }
impl CallStack {
    // CallStack::push_script / pop: contracts proved for the real type in unit U19
    #[verifier::external_body]
    pub fn push_script(&mut self, call_type: ScriptCallType, source_info: &SourceInfo, args: ScriptArgs) ensures final(self).depth() == old(self).depth() + 1 { unimplemented!() }
    #[verifier::external_body]
    pub fn pop(&mut self) requires old(self).depth() > 0 ensures final(self).depth() == old(self).depth() - 1 { unimplemented!() }
}
impl Shell {
    // ASSUMED frame contract of the interpreter, as for run_string: the call stack is left as found (on Ok and on Err)
    #[verifier::external_body]
    pub fn run_parsed_result(&mut self, parse_result: Result<Program, ParseError>, source_info: &SourceInfo, params: &ExecutionParameters) -> (r: Result<ExecutionResult, Error>)
        ensures final(self).call_stack.depth() == old(self).call_stack.depth()
    { unimplemented!() }
}
