// ---- prelude: the `trap` builtin (brush-builtins/src/trap.rs TrapCommand::execute).  POSIX XCU `trap`: "trap [action condition...]":
//  with one operand, or with `-` as the action, the named conditions are reset; OTHERWISE THE FIRST OPERAND IS THE ACTION — whatever
//  it looks like (`trap exit INT TERM` installs the command `exit`) — and it is installed for every following condition, and no other
//  condition is touched (C16: an EXIT trap set earlier still runs).
pub struct ExecutionResult { pub ok: bool }
impl ExecutionResult { pub fn success() -> (r: Self) ensures r.ok { Self { ok: true } } }
pub mod brush_core {
    use vstd::prelude::*;
    #[verifier::external_body] pub struct Error { _p: u8 }
}
#[derive(Clone, Copy)] #[verifier::external_body] pub struct TrapSignal { _p: u8 }
pub uninterp spec fn parse_spec(s: Seq<char>) -> Option<TrapSignal>;
// R14: `s.parse()` / `s.parse::<TrapSignal>()`
#[verifier::external_body]
pub fn parse_signal(s: &str) -> (r: Result<TrapSignal, brush_core::Error>)
    ensures match parse_spec(s@) { Some(t) => r == Ok::<TrapSignal, brush_core::Error>(t), None => r is Err }
{ unimplemented!() }
pub enum Op { Remove(TrapSignal), Register(Seq<TrapSignal>, Seq<char>), Show }
#[verifier::external_body] pub struct ExecutionContext { _p: u8 }
impl ExecutionContext { pub uninterp spec fn ops(&self) -> Seq<Op>; }          // ghost: what the builtin has done to the trap table / printed
pub struct TrapCommand { pub list_signals: bool, pub print_trap_commands: bool, pub args: Vec<String> }        // projection (fields checked)
impl TrapCommand {
    #[verifier::external_body]
    pub fn remove_all_handlers(context: &mut ExecutionContext, signal: TrapSignal) ensures final(context).ops() == old(context).ops().push(Op::Remove(signal)) { unimplemented!() }
    #[verifier::external_body]
    pub fn register_handler(context: &mut ExecutionContext, signals: Vec<TrapSignal>, handler: &str) ensures final(context).ops() == old(context).ops().push(Op::Register(signals@, handler@)) { unimplemented!() }
    #[verifier::external_body]
    pub fn display_handlers_for(context: &ExecutionContext, signal: TrapSignal) -> (r: Result<(), brush_core::Error>) { unimplemented!() }
    #[verifier::external_body]
    pub fn display_all_handlers(context: &ExecutionContext) -> (r: Result<(), brush_core::Error>) { unimplemented!() }
}
#[verifier::external_body]
pub fn vx_format_signals(context: &ExecutionContext) -> (r: Result<ExecutionResult, brush_core::Error>) { unimplemented!() }       // format_signals(..).map(|()| success())
#[verifier::external_body]
pub fn string_is(s: &String, lit: &str) -> (r: bool) ensures r == (s@ == lit@) { unimplemented!() }                             // String == &str
pub open spec fn is_dash(s: Seq<char>) -> bool { s == seq!['-'] }
// the signals named by args[from..to), in order (None if one of them does not parse)
pub open spec fn signals_of(args: Seq<String>, from: int, to: int) -> Option<Seq<TrapSignal>> decreases to - from {
    if to <= from { Some(Seq::empty()) }
    else { match (signals_of(args, from, to - 1), parse_spec(args[to - 1]@)) { (Some(p), Some(t)) => Some(p.push(t)), _ => None } }
}
pub open spec fn removes(sigs: Seq<TrapSignal>) -> Seq<Op> { sigs.map_values(|t: TrapSignal| Op::Remove(t)) }
// R14: `&v[1..]`
#[verifier::external_body]
pub fn vec_tail(v: &Vec<String>) -> (r: &[String]) requires v@.len() >= 1 ensures r@ == v@.subrange(1, v@.len() as int) { unimplemented!() }
// an operand that is not a condition name makes the whole list unparsable
pub proof fn lemma_signals_none(args: Seq<String>, from: int, to: int, k: int)
    requires from <= k < to, parse_spec(args[k]@) is None
    ensures signals_of(args, from, to) is None
    decreases to - from
{ if k < to - 1 { lemma_signals_none(args, from, to - 1, k); } }
