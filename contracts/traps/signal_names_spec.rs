// ---- prelude (C16): the word naming a trap condition (traps.rs, impl TryFrom<&str> for TrapSignal).
//  bash manual, trap: "Each sigspec is either a signal name ... or a signal number. Signal names are case insensitive and the SIG prefix
//  is optional" — that holds for the pseudo-signals too: `trap cmd exit` registers the EXIT trap (a name refused here means the trap is
//  never registered, so it never runs).
pub mod error {
    use vstd::prelude::*;
    #[verifier::external_body] pub struct Error { _p: u8 }
}
pub mod sys { pub mod signal { use vstd::prelude::*; #[verifier::external_body] #[derive(Clone, Copy)] pub struct Signal { _p: u8 } } }
pub uninterp spec fn ascii_upper(s: Seq<char>) -> Seq<char>;
// the real-signal lookup of the fallback arm (nix Signal::from_str + error mapping): a function of the name it is given
pub uninterp spec fn real_signal(name: Seq<char>) -> Result<sys::signal::Signal, error::Error>;
pub open spec fn with_sig_prefix(s: Seq<char>) -> Seq<char> { if s.len() >= 3 && s.subrange(0, 3) == seq!['S', 'I', 'G'] { s } else { seq!['S', 'I', 'G'] + s } }
// R14 stubs
#[verifier::external_body] pub fn str_to_ascii_uppercase(s: &str) -> (r: String) ensures r@ == ascii_upper(s@) { unimplemented!() }
#[verifier::external_body] pub fn str_eq(a: &str, b: &str) -> (r: bool) ensures r == (a@ == b@) { unimplemented!() }
#[verifier::external_body] pub fn string_starts_with(s: &String, p: &str) -> (r: bool) ensures r == (s@.len() >= p@.len() && s@.subrange(0, p@.len() as int) == p@) { unimplemented!() }
#[verifier::external_body] pub fn string_insert_front(s: &mut String, p: &str) ensures final(s)@ == p@ + old(s)@ { unimplemented!() }
#[verifier::external_body]
pub fn vx_real_signal(name: &str, original: &str) -> (r: Result<TrapSignal, error::Error>)
    ensures match real_signal(name@) { Ok(sg) => r == Ok::<TrapSignal, error::Error>(TrapSignal::Signal(sg)), Err(e) => r is Err }
{ unimplemented!() }
pub open spec fn pseudo_signal(up: Seq<char>) -> Option<TrapSignal> {
    if up == "DEBUG"@ { Some(TrapSignal::Debug) } else if up == "ERR"@ { Some(TrapSignal::Err) } else if up == "EXIT"@ { Some(TrapSignal::Exit) }
    else if up == "RETURN"@ { Some(TrapSignal::Return) } else { None }
}
