// ---- C06 ${parameter:offset:length} (bash manual, Shell Parameter Expansion): with n the length of the value (characters,
//      or elements for arrays): a negative offset counts from the end (and an offset beyond either end yields nothing);
//      a non-negative length is a count, clipped to the value; a negative length is an offset from the END of the value
//      marking where the substring stops — an error ("substring expression < 0") if that is before the start, and always
//      an error for arrays.
pub struct Error { pub k: u8 }
pub mod error {
    use vstd::prelude::*;
    pub use super::Error;
    pub enum ErrorKind { CheckedExpansionError(String) }      // projection (variant checked)
    impl vstd::std_specs::convert::FromSpecImpl<ErrorKind> for Error {
        open spec fn obeys_from_spec() -> bool { false }
        open spec fn from_spec(k: ErrorKind) -> Self { arbitrary() }
    }
    impl From<ErrorKind> for Error { #[verifier::external_body] fn from(k: ErrorKind) -> Self { unimplemented!() } }
}
// rule R8: `std::format!(..)` -> opaque String (the message text is lost)
#[verifier::external_body]
pub fn vx_format() -> String { unimplemented!() }

// projection of expansion.rs Expansion: only `from_array` is read by the slice (field checked); the rest is opaque
#[verifier::external_body]
pub struct ExpansionRest { _p: u8 }
pub struct Expansion { pub from_array: bool, pub rest: ExpansionRest }
impl Expansion {
    pub uninterp spec fn plen(&self) -> nat;                         // polymorphic length: characters, or elements if from_array
    pub uninterp spec fn slice_of(&self, src: Expansion, a: int, b: int) -> bool;   // self is src restricted to [a, b)
    #[verifier::external_body]
    pub fn polymorphic_len(&self) -> (r: usize) ensures r == self.plen() { unimplemented!() }
    // precondition = what the body needs not to panic (`end - index`, `fields.len() - index`); Kani-checked separately
    #[verifier::external_body]
    pub fn polymorphic_subslice(&self, index: usize, end: usize) -> (r: Self)
        requires index <= end, index <= self.plen(),
        ensures r.slice_of(*self, index as int, end as int)
    { unimplemented!() }
}
#[verifier::external_body] pub struct Shell { _p: u8 }
#[verifier::external_body] pub struct ExecutionParameters { _p: u8 }
pub struct ArithExpr { pub id: int }
impl ArithExpr {
    pub uninterp spec fn val(&self) -> i64;            // the value the expression evaluates to (abstract)
    pub uninterp spec fn evaluates(&self) -> bool;     // whether its evaluation succeeds (abstract)
    #[verifier::external_body]
    pub fn eval(&self, shell: &mut Shell, params: &ExecutionParameters, trace: bool) -> (r: Result<i64, Error>)
        ensures r is Ok == self.evaluates(), r is Ok ==> r->Ok_0 == self.val()
    { unimplemented!() }
}
// projection of WordExpander
pub struct WordExpander<'a> { pub shell: &'a mut Shell, pub params: &'a ExecutionParameters }

pub open spec fn start_of(n: int, o: int) -> int { if o < 0 { if o + n < 0 { n } else { o + n } } else { if o < n { o } else { n } } }
// Some((a, b)): the substring is [a, b);  None: "substring expression < 0"
pub open spec fn sub_bounds(n: int, from_array: bool, o: int, l: Option<int>) -> Option<(int, int)> {
    let a = start_of(n, o);
    match l {
        None => Some((a, n)),
        Some(l) => if l >= 0 { Some((a, if a + l < n { a + l } else { n })) }
                   else { let e = n + l; if from_array || e < a { None } else { Some((a, e)) } },
    }
}
