// ---------------- context stubs
pub struct St { pub x: int }
#[verifier::external_body]
pub struct Shell { _p: u8 }
impl Shell { pub uninterp spec fn st(&self) -> St; }

impl Clone for ast::ArithmeticTarget {
    #[verifier::external_body]
    fn clone(&self) -> (r: Self) ensures r == *self { unimplemented!() }
}

pub uninterp spec fn deref_sem(st: St, t: ast::ArithmeticTarget, depth: u32) -> (Result<i64, EvalError>, St);
pub uninterp spec fn assign_sem(st: St, t: ast::ArithmeticTarget, v: i64, depth: u32) -> (Result<i64, EvalError>, St);

#[verifier::external_body]
fn deref_lvalue(shell: &mut Shell, lvalue: &ast::ArithmeticTarget, depth: u32) -> (r: Result<i64, EvalError>)
    ensures (r, final(shell).st()) == deref_sem(old(shell).st(), *lvalue, depth)
{ unimplemented!() }

#[verifier::external_body]
fn assign(shell: &mut Shell, lvalue: &ast::ArithmeticTarget, value: i64, depth: u32) -> (r: Result<i64, EvalError>)
    ensures (r, final(shell).st()) == assign_sem(old(shell).st(), *lvalue, value, depth)
{ unimplemented!() }

// ---------------- spec: sizes
pub open spec fn tsize(t: ast::ArithmeticTarget) -> nat decreases t {
    match t { ast::ArithmeticTarget::Variable(_) => 1, ast::ArithmeticTarget::ArrayElement(_, e) => 1 + esize(*e) }
}
pub open spec fn esize(e: ast::ArithmeticExpr) -> nat decreases e {
    match e {
        ast::ArithmeticExpr::Literal(_) => 1,
        ast::ArithmeticExpr::Reference(t) => 1 + tsize(t),
        ast::ArithmeticExpr::UnaryOp(_, a) => 1 + esize(*a),
        ast::ArithmeticExpr::BinaryOp(_, a, b) => 1 + esize(*a) + esize(*b),
        ast::ArithmeticExpr::Conditional(a, b, c) => 1 + esize(*a) + esize(*b) + esize(*c),
        ast::ArithmeticExpr::Assignment(t, a) => 1 + tsize(t) + esize(*a),
        ast::ArithmeticExpr::BinaryAssignment(_, t, a) => 3 + tsize(t) + esize(*a),
        ast::ArithmeticExpr::UnaryAssignment(_, t) => 1 + tsize(t),
    }
}

// ---------------- spec: C semantics over wrapping i64 (C11 6.5 + bash manual "Shell Arithmetic")
pub open spec fn b2i(b: bool) -> i64 { if b { 1 } else { 0 } }
pub open spec fn pow_spec(b: i64, e: u64) -> i64 { w(pow(b as int, e as nat)) }

pub open spec fn un_sem(op: ast::UnaryOperator, v: i64) -> i64 {
    match op {
        ast::UnaryOperator::UnaryPlus => v,
        ast::UnaryOperator::UnaryMinus => if v == i64::MIN { i64::MIN } else { (-v) as i64 },
        ast::UnaryOperator::BitwiseNot => !v,
        ast::UnaryOperator::LogicalNot => b2i(v == 0),
    }
}

pub open spec fn bin_sem(op: ast::BinaryOperator, l: i64, r: i64) -> Result<i64, EvalError> {
    match op {
        ast::BinaryOperator::Power => if r >= 0 { Ok(pow_spec(l, r as u64)) } else { Err(EvalError::NegativeExponent) },
        ast::BinaryOperator::Multiply => Ok(l.wrapping_mul(r)),
        ast::BinaryOperator::Divide => if r == 0 { Err(EvalError::DivideByZero) } else if l == i64::MIN && r == -1 { Ok(i64::MIN) } else { Ok(cdiv(l as int, r as int) as i64) },
        ast::BinaryOperator::Modulo => if r == 0 { Err(EvalError::DivideByZero) } else if r == -1 { Ok(0i64) } else { Ok(crem(l as int, r as int) as i64) },
        ast::BinaryOperator::Comma => Ok(r),
        ast::BinaryOperator::Add => Ok(l.wrapping_add(r)),
        ast::BinaryOperator::Subtract => Ok(l.wrapping_sub(r)),
        ast::BinaryOperator::ShiftLeft => Ok(l.wrapping_shl(r as u32)),
        ast::BinaryOperator::ShiftRight => Ok(l.wrapping_shr(r as u32)),
        ast::BinaryOperator::LessThan => Ok(b2i(l < r)),
        ast::BinaryOperator::LessThanOrEqualTo => Ok(b2i(l <= r)),
        ast::BinaryOperator::GreaterThan => Ok(b2i(l > r)),
        ast::BinaryOperator::GreaterThanOrEqualTo => Ok(b2i(l >= r)),
        ast::BinaryOperator::Equals => Ok(b2i(l == r)),
        ast::BinaryOperator::NotEquals => Ok(b2i(l != r)),
        ast::BinaryOperator::BitwiseAnd => Ok(l & r),
        ast::BinaryOperator::BitwiseXor => Ok(l ^ r),
        ast::BinaryOperator::BitwiseOr => Ok(l | r),
        ast::BinaryOperator::LogicalAnd => Ok(b2i(l != 0 && r != 0)),
        ast::BinaryOperator::LogicalOr => Ok(b2i(l != 0 || r != 0)),
    }
}

pub open spec fn sem(e: ast::ArithmeticExpr, st: St, depth: u32) -> (Result<i64, EvalError>, St)
    decreases esize(e)
{
    match e {
        ast::ArithmeticExpr::Literal(l) => (Ok(l), st),
        ast::ArithmeticExpr::Reference(t) => deref_sem(st, t, depth),
        ast::ArithmeticExpr::UnaryOp(op, a) => {
            let (ra, s1) = sem(*a, st, depth);
            match ra { Ok(v) => (Ok(un_sem(op, v)), s1), Err(x) => (Err(x), s1) }
        }
        ast::ArithmeticExpr::BinaryOp(op, a, b) => {
            let (ra, s1) = sem(*a, st, depth);
            match ra {
                Err(x) => (Err(x), s1),
                Ok(l) => {
                    if op is LogicalAnd && l == 0 { (Ok(0i64), s1) }
                    else if op is LogicalOr && l != 0 { (Ok(1i64), s1) }
                    else {
                        let (rb, s2) = sem(*b, s1, depth);
                        match rb { Err(x) => (Err(x), s2), Ok(r) => (bin_sem(op, l, r), s2) }
                    }
                }
            }
        }
        ast::ArithmeticExpr::Conditional(c, a, b) => {
            let (rc, s1) = sem(*c, st, depth);
            match rc { Err(x) => (Err(x), s1), Ok(v) => if v != 0 { sem(*a, s1, depth) } else { sem(*b, s1, depth) } }
        }
        ast::ArithmeticExpr::Assignment(t, a) => {
            let (ra, s1) = sem(*a, st, depth);
            match ra { Err(x) => (Err(x), s1), Ok(v) => assign_sem(s1, t, v, depth) }
        }
        ast::ArithmeticExpr::BinaryAssignment(op, t, a) => {
            // x op= e  ==  x = (x op e): read x, then (unless short-circuited) evaluate e, then store
            let (rl, s1) = deref_sem(st, t, depth);
            let (rv, s3) = match rl {
                Err(x) => (Err(x), s1),
                Ok(l) => {
                    if op is LogicalAnd && l == 0 { (Ok(0i64), s1) }
                    else if op is LogicalOr && l != 0 { (Ok(1i64), s1) }
                    else {
                        let (rb, s2) = sem(*a, s1, depth);
                        match rb { Err(x) => (Err(x), s2), Ok(r) => (bin_sem(op, l, r), s2) }
                    }
                }
            };
            match rv { Err(x) => (Err(x), s3), Ok(v) => assign_sem(s3, t, v, depth) }
        }
        ast::ArithmeticExpr::UnaryAssignment(op, t) => {
            let (rv, s1) = deref_sem(st, t, depth);
            match rv {
                Err(x) => (Err(x), s1),
                Ok(v) => {
                    let nv = match op {
                        ast::UnaryAssignmentOperator::PrefixIncrement | ast::UnaryAssignmentOperator::PostfixIncrement => v.wrapping_add(1),
                        ast::UnaryAssignmentOperator::PrefixDecrement | ast::UnaryAssignmentOperator::PostfixDecrement => v.wrapping_sub(1),
                    };
                    let (ra, s2) = assign_sem(s1, t, nv, depth);
                    match ra {
                        Err(x) => (Err(x), s2),
                        Ok(_) => (Ok(match op {
                            ast::UnaryAssignmentOperator::PrefixIncrement | ast::UnaryAssignmentOperator::PrefixDecrement => nv,
                            _ => v,
                        }), s2),
                    }
                }
            }
        }
    }
}
// std integer operations the evaluator has no business calling: named here only so that a change which starts using one of them is
// checked against the semantics above instead of stopping the run (their results are left unspecified)
pub assume_specification [i64::wrapping_rem_euclid] (a: i64, b: i64) -> (r: i64) requires b != 0;
pub assume_specification [i64::wrapping_div_euclid] (a: i64, b: i64) -> (r: i64) requires b != 0;
