// ---- prelude: the operator table of shell arithmetic (bash manual, ARITHMETIC EVALUATION; the levels are C's) -------------------------
//  The `precedence!{}` block of brush-parser/src/arithmetic.rs is read row by row by the extractor into `row(i)` below this prelude:
//  level = number of `--` separators before the row, fix = the shape of the row's operands, ctor = the AST constructor its action
//  builds, lexeme = the operator's characters (base-256 number), args_in_order = the action passes the operands in source order.
//  ASSUMED (dependency contract, peg 0.8 `precedence!`): levels are listed loosest first; `x:(@) OP y:@` is left-associative,
//  `x:@ OP y:(@)` right-associative; a prefix rule binds tighter than every infix rule of a lower level.
pub enum Fix {
    InfixL,        // x:(@) OP y:@
    InfixR,        // x:@ OP y:(@)
    InfixNone,     // x:@ OP y:@
    InfixBoth,     // x:(@) OP y:(@)   (ambiguous)
    AssignR,       // x:lvalue() OP y:(@)
    AssignTight,   // x:lvalue() OP y:@
    TernaryR,      // x:@ ? y:expression() : z:(@)
    TernaryOther,  // any other marking of the three operands
    Prefix,        // OP x:(@)
    PrefixTight,   // OP x:@
    PrefixLvalue,  // OP x:lvalue()
    PostfixLvalue, // x:lvalue() OP
    Atom,
}
pub enum Ctor {
    Bin(ast::BinaryOperator),
    OpAssign(ast::BinaryOperator),
    Assign,
    Cond,
    Un(ast::UnaryOperator),
    IncDec(ast::UnaryAssignmentOperator),
    Literal,
    Reference,
    Paren,
}
pub struct Row { pub level: int, pub fix: Fix, pub ctor: Ctor, pub lexeme: int, pub args_in_order: bool }

pub open spec fn lex1(a: char) -> int { a as int }
pub open spec fn lex2(a: char, b: char) -> int { (a as int) * 256 + (b as int) }
pub open spec fn lex3(a: char, b: char, c: char) -> int { ((a as int) * 256 + (b as int)) * 256 + (c as int) }

// the bash manual's list, numbered from the loosest-binding group (its last line) upwards
pub open spec fn bin_group(op: ast::BinaryOperator) -> int {
    match op {
        ast::BinaryOperator::Comma => 0,
        ast::BinaryOperator::LogicalOr => 3,
        ast::BinaryOperator::LogicalAnd => 4,
        ast::BinaryOperator::BitwiseOr => 5,
        ast::BinaryOperator::BitwiseXor => 6,
        ast::BinaryOperator::BitwiseAnd => 7,
        ast::BinaryOperator::Equals => 8,
        ast::BinaryOperator::NotEquals => 8,
        ast::BinaryOperator::LessThan => 9,
        ast::BinaryOperator::LessThanOrEqualTo => 9,
        ast::BinaryOperator::GreaterThan => 9,
        ast::BinaryOperator::GreaterThanOrEqualTo => 9,
        ast::BinaryOperator::ShiftLeft => 10,
        ast::BinaryOperator::ShiftRight => 10,
        ast::BinaryOperator::Add => 11,
        ast::BinaryOperator::Subtract => 11,
        ast::BinaryOperator::Multiply => 12,
        ast::BinaryOperator::Divide => 12,
        ast::BinaryOperator::Modulo => 12,
        ast::BinaryOperator::Power => 13,
    }
}
pub open spec fn bin_lexeme(op: ast::BinaryOperator) -> int {
    match op {
        ast::BinaryOperator::Comma => lex1(','),
        ast::BinaryOperator::LogicalOr => lex2('|', '|'),
        ast::BinaryOperator::LogicalAnd => lex2('&', '&'),
        ast::BinaryOperator::BitwiseOr => lex1('|'),
        ast::BinaryOperator::BitwiseXor => lex1('^'),
        ast::BinaryOperator::BitwiseAnd => lex1('&'),
        ast::BinaryOperator::Equals => lex2('=', '='),
        ast::BinaryOperator::NotEquals => lex2('!', '='),
        ast::BinaryOperator::LessThan => lex1('<'),
        ast::BinaryOperator::LessThanOrEqualTo => lex2('<', '='),
        ast::BinaryOperator::GreaterThan => lex1('>'),
        ast::BinaryOperator::GreaterThanOrEqualTo => lex2('>', '='),
        ast::BinaryOperator::ShiftLeft => lex2('<', '<'),
        ast::BinaryOperator::ShiftRight => lex2('>', '>'),
        ast::BinaryOperator::Add => lex1('+'),
        ast::BinaryOperator::Subtract => lex1('-'),
        ast::BinaryOperator::Multiply => lex1('*'),
        ast::BinaryOperator::Divide => lex1('/'),
        ast::BinaryOperator::Modulo => lex1('%'),
        ast::BinaryOperator::Power => lex2('*', '*'),
    }
}
// `OP=` exists for these ten (bash manual: = *= /= %= += -= <<= >>= &= ^= |=)
pub open spec fn has_op_assign(op: ast::BinaryOperator) -> bool {
    match op {
        ast::BinaryOperator::Multiply => true,
        ast::BinaryOperator::Divide => true,
        ast::BinaryOperator::Modulo => true,
        ast::BinaryOperator::Add => true,
        ast::BinaryOperator::Subtract => true,
        ast::BinaryOperator::ShiftLeft => true,
        ast::BinaryOperator::ShiftRight => true,
        ast::BinaryOperator::BitwiseAnd => true,
        ast::BinaryOperator::BitwiseXor => true,
        ast::BinaryOperator::BitwiseOr => true,
        _ => false,
    }
}
pub open spec fn infix_class(c: Ctor) -> bool { c is Bin || c is OpAssign || c is Assign || c is Cond }
pub open spec fn c_group(c: Ctor) -> int {
    match c {
        Ctor::Bin(op) => bin_group(op),
        Ctor::OpAssign(_) => 1,
        Ctor::Assign => 1,
        Ctor::Cond => 2,
        _ => 14,
    }
}
pub open spec fn c_fix(c: Ctor) -> Fix {
    match c {
        Ctor::Bin(op) => if op == ast::BinaryOperator::Power { Fix::InfixR } else { Fix::InfixL },   // ** is right-associative, the rest left
        Ctor::OpAssign(_) => Fix::AssignR,
        Ctor::Assign => Fix::AssignR,
        Ctor::Cond => Fix::TernaryR,
        Ctor::Un(_) => Fix::Prefix,
        Ctor::IncDec(op) => match op {
            ast::UnaryAssignmentOperator::PrefixIncrement => Fix::PrefixLvalue,
            ast::UnaryAssignmentOperator::PrefixDecrement => Fix::PrefixLvalue,
            ast::UnaryAssignmentOperator::PostfixIncrement => Fix::PostfixLvalue,
            ast::UnaryAssignmentOperator::PostfixDecrement => Fix::PostfixLvalue,
        },
        _ => Fix::Atom,
    }
}
pub open spec fn c_lexeme(c: Ctor) -> int {
    match c {
        Ctor::Bin(op) => bin_lexeme(op),
        Ctor::OpAssign(op) => bin_lexeme(op) * 256 + ('=' as int),
        Ctor::Assign => lex1('='),
        Ctor::Cond => lex2('?', ':'),
        Ctor::Un(op) => match op {
            ast::UnaryOperator::UnaryPlus => lex1('+'),
            ast::UnaryOperator::UnaryMinus => lex1('-'),
            ast::UnaryOperator::BitwiseNot => lex1('~'),
            ast::UnaryOperator::LogicalNot => lex1('!'),
        },
        Ctor::IncDec(op) => match op {
            ast::UnaryAssignmentOperator::PrefixIncrement => lex2('+', '+'),
            ast::UnaryAssignmentOperator::PrefixDecrement => lex2('-', '-'),
            ast::UnaryAssignmentOperator::PostfixIncrement => lex2('+', '+'),
            ast::UnaryAssignmentOperator::PostfixDecrement => lex2('-', '-'),
        },
        Ctor::Literal => 0,
        Ctor::Reference => 0,
        Ctor::Paren => lex2('(', ')'),
    }
}
// which constructors the table must offer (exactly once each)
pub open spec fn wanted(c: Ctor) -> bool {
    match c {
        Ctor::OpAssign(op) => has_op_assign(op),
        _ => true,
    }
}
pub open spec fn n_wanted() -> int { 43 }
pub open spec fn wanted_at(k: int) -> Ctor {
    if k == 0 { Ctor::Bin(ast::BinaryOperator::Comma) }
    else if k == 1 { Ctor::Bin(ast::BinaryOperator::LogicalOr) }
    else if k == 2 { Ctor::Bin(ast::BinaryOperator::LogicalAnd) }
    else if k == 3 { Ctor::Bin(ast::BinaryOperator::BitwiseOr) }
    else if k == 4 { Ctor::Bin(ast::BinaryOperator::BitwiseXor) }
    else if k == 5 { Ctor::Bin(ast::BinaryOperator::BitwiseAnd) }
    else if k == 6 { Ctor::Bin(ast::BinaryOperator::Equals) }
    else if k == 7 { Ctor::Bin(ast::BinaryOperator::NotEquals) }
    else if k == 8 { Ctor::Bin(ast::BinaryOperator::LessThan) }
    else if k == 9 { Ctor::Bin(ast::BinaryOperator::LessThanOrEqualTo) }
    else if k == 10 { Ctor::Bin(ast::BinaryOperator::GreaterThan) }
    else if k == 11 { Ctor::Bin(ast::BinaryOperator::GreaterThanOrEqualTo) }
    else if k == 12 { Ctor::Bin(ast::BinaryOperator::ShiftLeft) }
    else if k == 13 { Ctor::Bin(ast::BinaryOperator::ShiftRight) }
    else if k == 14 { Ctor::Bin(ast::BinaryOperator::Add) }
    else if k == 15 { Ctor::Bin(ast::BinaryOperator::Subtract) }
    else if k == 16 { Ctor::Bin(ast::BinaryOperator::Multiply) }
    else if k == 17 { Ctor::Bin(ast::BinaryOperator::Divide) }
    else if k == 18 { Ctor::Bin(ast::BinaryOperator::Modulo) }
    else if k == 19 { Ctor::Bin(ast::BinaryOperator::Power) }
    else if k == 20 { Ctor::OpAssign(ast::BinaryOperator::Multiply) }
    else if k == 21 { Ctor::OpAssign(ast::BinaryOperator::Divide) }
    else if k == 22 { Ctor::OpAssign(ast::BinaryOperator::Modulo) }
    else if k == 23 { Ctor::OpAssign(ast::BinaryOperator::Add) }
    else if k == 24 { Ctor::OpAssign(ast::BinaryOperator::Subtract) }
    else if k == 25 { Ctor::OpAssign(ast::BinaryOperator::ShiftLeft) }
    else if k == 26 { Ctor::OpAssign(ast::BinaryOperator::ShiftRight) }
    else if k == 27 { Ctor::OpAssign(ast::BinaryOperator::BitwiseAnd) }
    else if k == 28 { Ctor::OpAssign(ast::BinaryOperator::BitwiseXor) }
    else if k == 29 { Ctor::OpAssign(ast::BinaryOperator::BitwiseOr) }
    else if k == 30 { Ctor::Assign }
    else if k == 31 { Ctor::Cond }
    else if k == 32 { Ctor::Un(ast::UnaryOperator::UnaryPlus) }
    else if k == 33 { Ctor::Un(ast::UnaryOperator::UnaryMinus) }
    else if k == 34 { Ctor::Un(ast::UnaryOperator::BitwiseNot) }
    else if k == 35 { Ctor::Un(ast::UnaryOperator::LogicalNot) }
    else if k == 36 { Ctor::IncDec(ast::UnaryAssignmentOperator::PrefixIncrement) }
    else if k == 37 { Ctor::IncDec(ast::UnaryAssignmentOperator::PrefixDecrement) }
    else if k == 38 { Ctor::IncDec(ast::UnaryAssignmentOperator::PostfixIncrement) }
    else if k == 39 { Ctor::IncDec(ast::UnaryAssignmentOperator::PostfixDecrement) }
    else if k == 40 { Ctor::Literal }
    else if k == 41 { Ctor::Reference }
    else { Ctor::Paren }
}
pub open spec fn row_ok(r: Row) -> bool { wanted(r.ctor) && r.fix == c_fix(r.ctor) && r.lexeme == c_lexeme(r.ctor) && r.args_in_order }
pub open spec fn rows_ok_upto(i: int) -> bool decreases i { i <= 0 || (rows_ok_upto(i - 1) && row_ok(row(i - 1))) }
pub open spec fn count(c: Ctor, i: int) -> int decreases i { if i <= 0 { 0 } else { count(c, i - 1) + if row(i - 1).ctor == c { 1int } else { 0int } } }
pub open spec fn once_upto(k: int) -> bool decreases k { k <= 0 || (once_upto(k - 1) && count(wanted_at(k - 1), n_rows()) == 1) }
// two infix-class rows are ordered as their groups in the manual's list; every prefix / postfix / atom row binds tighter than every infix-class row
pub open spec fn order_ok(a: Row, b: Row) -> bool { infix_class(a.ctor) && infix_class(b.ctor) ==> ((a.level < b.level) == (c_group(a.ctor) < c_group(b.ctor))) }
pub open spec fn tighter_ok(a: Row, b: Row) -> bool { !infix_class(a.ctor) && infix_class(b.ctor) ==> a.level > b.level }
pub open spec fn order_row(i: int, j: int) -> bool decreases j { j <= 0 || (order_row(i, j - 1) && order_ok(row(i), row(j - 1))) }
pub open spec fn order_upto(i: int) -> bool decreases i { i <= 0 || (order_upto(i - 1) && order_row(i - 1, n_rows())) }
pub open spec fn tighter_row(i: int, j: int) -> bool decreases j { j <= 0 || (tighter_row(i, j - 1) && tighter_ok(row(i), row(j - 1))) }
pub open spec fn tighter_upto(i: int) -> bool decreases i { i <= 0 || (tighter_upto(i - 1) && tighter_row(i - 1, n_rows())) }

pub proof fn lemma_order_row(i: int, n: int, j: int)
    requires order_row(i, n), 0 <= j < n
    ensures order_ok(row(i), row(j))
    decreases n
{ if j < n - 1 { lemma_order_row(i, n - 1, j); } }
pub proof fn lemma_order_upto(n: int, i: int, j: int)
    requires order_upto(n), 0 <= i < n, 0 <= j < n_rows()
    ensures order_ok(row(i), row(j))
    decreases n
{ if i < n - 1 { lemma_order_upto(n - 1, i, j); } else { lemma_order_row(i, n_rows(), j); } }
pub proof fn lemma_tighter_row(i: int, n: int, j: int)
    requires tighter_row(i, n), 0 <= j < n
    ensures tighter_ok(row(i), row(j))
    decreases n
{ if j < n - 1 { lemma_tighter_row(i, n - 1, j); } }
pub proof fn lemma_tighter_upto(n: int, i: int, j: int)
    requires tighter_upto(n), 0 <= i < n, 0 <= j < n_rows()
    ensures tighter_ok(row(i), row(j))
    decreases n
{ if i < n - 1 { lemma_tighter_upto(n - 1, i, j); } else { lemma_tighter_row(i, n_rows(), j); } }
pub proof fn lemma_rows_ok(n: int, i: int)
    requires rows_ok_upto(n), 0 <= i < n
    ensures row_ok(row(i))
    decreases n
{ if i < n - 1 { lemma_rows_ok(n - 1, i); } }
pub proof fn lemma_once(n: int, k: int)
    requires once_upto(n), 0 <= k < n
    ensures count(wanted_at(k), n_rows()) == 1
    decreases n
{ if k < n - 1 { lemma_once(n - 1, k); } }
