// ---- C01 (recursion through variable contents): `a=b; b=a; echo $((a))` must end in "expression recursion level exceeded", not
//  in a stack overflow.  The evaluator (unit U5) passes `depth` unchanged through the structure of one expression; the only
//  place where evaluation continues into a NEW expression (the parsed contents of a variable) is deref_lvalue.  Discipline proved
//  here: every evaluation deref_lvalue starts runs either at the same depth on a literal or on the subscript of the lvalue
//  (a strict sub-term), or exactly one level deeper and never deeper than MAX_VARIABLE_DEREF_DEPTH.
//  (Composition into one global measure (MAX - depth, size) is an argument, not a single machine-checked decreases clause.)
pub struct EvalCall { pub expr: ast::ArithmeticExpr, pub depth: u32, pub ret: Result<i64, EvalError> }
#[verifier::external_body]
pub struct Shell { _p: u8 }
impl Shell { pub uninterp spec fn evals(&self) -> Seq<EvalCall>;    // ghost: evaluator entries so far (with what each returned)
             pub uninterp spec fn vars(&self) -> int; }               // ghost: the variable store (abstract; the stub evaluator leaves it alone)
#[verifier::external_body]
fn eval_expr_impl(expr: &ast::ArithmeticExpr, shell: &mut Shell, depth: u32) -> (r: Result<i64, EvalError>)
    ensures final(shell).evals() == old(shell).evals().push(EvalCall { expr: *expr, depth: depth, ret: r }), final(shell).vars() == old(shell).vars()
{ unimplemented!() }
impl ast::ArithmeticExpr {
    // Evaluatable::eval (arithmetic.rs): `eval_expr_impl(self, shell, 0)` — the text is checked at extraction time
    #[verifier::external_body]
    pub fn eval(&self, shell: &mut Shell) -> (r: Result<i64, EvalError>)
        ensures final(shell).evals() == old(shell).evals().push(EvalCall { expr: *self, depth: 0, ret: r })
    { unimplemented!() }
}
pub uninterp spec fn var_text(vars: int, name: Seq<char>) -> Result<Seq<char>, EvalError>;          // the text a variable holds ("" when unset)
pub uninterp spec fn parse_spec(text: Seq<char>) -> Result<ast::ArithmeticExpr, EvalError>;        // brush_parser::arithmetic::parse
#[verifier::external_body]
fn get_var_value(shell: &Shell, name: &str) -> (r: Result<String, EvalError>)
    ensures match var_text(shell.vars(), name@) { Ok(t) => r is Ok && r->Ok_0@ == t, Err(e) => r == Err::<String, EvalError>(e) }
{ unimplemented!() }
#[verifier::external_body]
fn env_get_at(shell: &Shell, name: &String, index: &str) -> (r: Result<String, EvalError>) { unimplemented!() }
#[verifier::external_body]
fn parse_arith(text: &String) -> (r: Result<ast::ArithmeticExpr, EvalError>) ensures r == parse_spec(text@) { unimplemented!() }
// std pieces a shortcut might be written with (no meaning attached: a result obtained through them is not the evaluator's)
pub assume_specification [str::trim] (s: &str) -> (r: &str);
pub trait VxOwned { spec fn vx_view(&self) -> Seq<char>; fn vx_owned(self) -> (r: String) ensures r@ == self.vx_view(); }
impl VxOwned for String { open spec fn vx_view(&self) -> Seq<char> { self@ } #[verifier::external_body] fn vx_owned(self) -> (r: String) { self } }
spec fn deref_call_ok(c: EvalCall, lvalue: ast::ArithmeticTarget, depth: u32) -> bool {
    ||| (c.depth == depth && c.expr is Literal)
    ||| (c.depth == depth && lvalue is ArrayElement && c.expr == *lvalue->ArrayElement_1)
    ||| (c.depth == depth + 1 && c.depth <= MAX_VARIABLE_DEREF_DEPTH)
}
#[verifier::external_body]
fn vx_parse_i64(s: &str) -> (r: Result<i64, EvalError>) { unimplemented!() }       // R14: str::parse::<i64> (arbitrary result; error type irrelevant)
