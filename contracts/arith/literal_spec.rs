
// bash manual, "Shell Arithmetic": base#n; digits above 9: lowercase, uppercase, '@', '_' in that order;
// if base <= 36 lowercase and uppercase may be used interchangeably
pub open spec fn digit_of(ch: char, radix: u64) -> Option<u64> {
    let c = ch as u32;
    if '0' as u32 <= c <= '9' as u32 { Some((c - '0' as u32) as u64) }
    else if 'a' as u32 <= c <= 'z' as u32 { Some((c - 'a' as u32 + 10) as u64) }
    else if 'A' as u32 <= c <= 'Z' as u32 { if radix <= 36 { Some((c - 'A' as u32 + 10) as u64) } else { Some((c - 'A' as u32 + 36) as u64) } }
    else if ch == '@' && radix > 36 { Some(62u64) }
    else if ch == '_' && radix > 36 { Some(63u64) }
    else { None }
}
// Horner evaluation in wrapping 64-bit arithmetic (bash accumulates the same way); None on a bad digit anywhere
pub open spec fn lit_val(s: Seq<char>, radix: u64) -> Option<i64> decreases s.len() {
    if s.len() == 0 { Some(0i64) } else {
        match (lit_val(s.drop_last(), radix), digit_of(s.last(), radix)) {
            (Some(v), Some(d)) => if d < radix { Some(v.wrapping_mul(radix as i64).wrapping_add(d as i64)) } else { None },
            _ => None,
        }
    }
}
// a bad prefix makes the whole literal bad
pub proof fn lemma_prefix_none(s: Seq<char>, p: Seq<char>, radix: u64)
    requires p.is_prefix_of(s), lit_val(p, radix) is None,
    ensures lit_val(s, radix) is None,
    decreases s.len() - p.len()
{
    if p.len() < s.len() {
        let p2 = s.take(p.len() as int + 1);
        assert(p2.drop_last() =~= p);
        lemma_prefix_none(s, p2, radix);
    } else {
        assert(p =~= s);
    }
}
// ---- decimal literals: the digits are read as an unsigned 64-bit number and reinterpreted as signed (bash: intmax_t wraps)
pub uninterp spec fn dec_value_u64(s: Seq<char>) -> Option<u64>;      // None: more than 64 bits (or no digits)
#[verifier::external_body] pub struct ParseIntError { _p: u8 }
#[verifier::external_body]
pub fn parse_u64(s: &str) -> (r: Result<u64, ParseIntError>)
    ensures match dec_value_u64(s@) { Some(v) => r is Ok && r->Ok_0 == v, None => r is Err }
{ unimplemented!() }
// std: Result::unwrap_or
pub assume_specification<T, E> [Result::<T, E>::unwrap_or] (r: Result<T, E>, d: T) -> (o: T)
    ensures o == (match r { Ok(v) => v, Err(_) => d });
