// ---- `**`: square-and-multiply in wrapping arithmetic == mathematical power reduced to i64
pub open spec fn M() -> int { 0x1_0000_0000_0000_0000 }
pub open spec fn w(x: int) -> i64 { ((((x + 0x8000_0000_0000_0000) % 0x1_0000_0000_0000_0000) - 0x8000_0000_0000_0000)) as i64 }

proof fn lemma_w_mod(x: int) ensures (w(x) as int) % M() == x % M()
{
    let y = (x + 0x8000_0000_0000_0000) % M();
    lemma_fundamental_div_mod(x + 0x8000_0000_0000_0000, M());
    let q = (x + 0x8000_0000_0000_0000) / M();
    // x + H == M*q + y  =>  w(x) = y - H = x - M*q
    assert(w(x) as int == x - M() * q) by { lemma_mul_is_commutative(M(), q); }
    lemma_mod_multiples_vanish(-q, x, M());
    assert(x + M() * (-q) == x - M() * q) by (nonlinear_arith);
}
proof fn lemma_w_eq(x: int, y: int) requires x % M() == y % M() ensures w(x) == w(y)
{
    lemma_mod_add_eq(x, y, 0x8000_0000_0000_0000, M());
}
proof fn lemma_mod_add_eq(x: int, y: int, c: int, m: int) requires m > 0, x % m == y % m ensures (x + c) % m == (y + c) % m
{
    lemma_add_mod_noop(x, c, m); lemma_add_mod_noop(y, c, m);
}
proof fn lemma_mul_cong(a: int, a2: int, b: int, b2: int) requires a % M() == a2 % M(), b % M() == b2 % M() ensures (a * b) % M() == (a2 * b2) % M()
{
    lemma_mul_mod_noop(a, b, M()); lemma_mul_mod_noop(a2, b2, M());
}
proof fn lemma_pow_cong(a: int, a2: int, e: nat) requires a % M() == a2 % M() ensures pow(a, e) % M() == pow(a2, e) % M() decreases e
{
    reveal(pow);
    if e > 0 { lemma_pow_cong(a, a2, (e - 1) as nat); lemma_mul_cong(a, a2, pow(a, (e - 1) as nat), pow(a2, (e - 1) as nat)); }
}

// accumulator-style square-and-multiply: this is literally the loop of wrapping_pow_u64
pub open spec fn pow_acc(result: i64, base: i64, e: u64) -> i64 decreases e
{
    if e == 0 { result } else { pow_acc(if e % 2 == 1 { result.wrapping_mul(base) } else { result }, base.wrapping_mul(base), e / 2) }
}

// code-free lemma: square-and-multiply in wrapping arithmetic is the mathematical power reduced mod 2^64
proof fn lemma_pow_acc(r: i64, b: i64, e: u64) ensures pow_acc(r, b, e) == w(r * pow(b as int, e as nat)) decreases e
{
    reveal(pow);
    if e == 0 {
        assert(pow(b as int, 0) == 1);
        assert(r * 1 == r as int) by (nonlinear_arith);
        assert(w(r as int) == r);
    } else {
        let r2: i64 = if e % 2 == 1 { r.wrapping_mul(b) } else { r };
        let b2: i64 = b.wrapping_mul(b);
        let k = (e / 2) as u64;
        lemma_pow_acc(r2, b2, k);
        // r2 * pow(b2, k)  ≡  r * pow(b, e)   (mod 2^64)
        lemma_w_mod(b * b);                         // b2 ≡ b*b
        assert(b2 == w(b * b));
        lemma_pow_cong(b2 as int, b * b, k as nat); // pow(b2,k) ≡ pow(b*b,k)
        lemma_pow_multiplies(b as int, 2, k as nat); // pow(pow(b,2),k) == pow(b, 2k)
        lemma_pow2_is_sq(b as int);
        if e % 2 == 1 {
            lemma_w_mod(r * b);
            assert(r2 == w(r * b));
            lemma_mul_cong(r2 as int, r * b, pow(b2 as int, k as nat), pow(b * b, k as nat));
            assert(e as nat == 2 * (k as nat) + 1);
            lemma_pow_adds(b as int, 1, 2 * (k as nat));
            lemma_pow1(b as int);
            assert((r * b) * pow(b as int, 2 * (k as nat)) == r * (b * pow(b as int, 2 * (k as nat)))) by (nonlinear_arith);
            assert(pow(b as int, e as nat) == b * pow(b as int, 2 * (k as nat)));
        } else {
            lemma_mul_cong(r2 as int, r as int, pow(b2 as int, k as nat), pow(b * b, k as nat));
            assert(e as nat == 2 * (k as nat));
        }
        lemma_w_eq(r2 * pow(b2 as int, k as nat), r * pow(b as int, e as nat));
    }
}
proof fn lemma_pow2_is_sq(b: int) ensures pow(b, 2) == b * b
{
    reveal(pow); lemma_pow1(b); assert(pow(b, 2) == b * pow(b, 1));
}

