// ---- C05 (brace expressions): expansion.rs runs the brace grammar only on words that pass `may_contain_braces_to_expand`.
//  A word the pre-check rejects is left unexpanded, so the check must accept every word that can contain a brace expression.
//  Necessary for a brace expression (bash manual 3.5.1: "an opening brace ... and a closing brace"; "${" is not eligible):
//  an opening `{` that does not directly follow a `$` which is itself not preceded by a backslash, and a `}` after it.
//  (A `$` preceded by a backslash may still be unescaped when that backslash is itself escaped; counting such a `{` only makes
//  the necessary condition weaker, i.e. the requirement on the pre-check stronger in the safe direction.)
pub open spec fn dollar_before(s: Seq<char>, i: int) -> bool { i > 0 && s[i - 1] == '$' && !(i > 1 && s[i - 2] == '\\') }
pub open spec fn opens(s: Seq<char>, i: int) -> bool { 0 <= i < s.len() && s[i] == '{' && !dollar_before(s, i) }
pub open spec fn has_brace_pair(s: Seq<char>) -> bool { exists|i: int, j: int| #![trigger opens(s, i), s[j]] opens(s, i) && i < j < s.len() && s[j] == '}' }
