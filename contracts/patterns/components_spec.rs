// ---- prelude (C04 / C08): how Pattern::expand (patterns.rs) cuts the pieces of a word into path components.  Every fragment of a piece
//  keeps the KIND of that piece — text that was quoted (Literal) stays literal in whichever component it ends up, so a glob character in
//  a quoted `a/b*` never becomes a pattern; the first fragment of a piece continues the component in progress, each further fragment
//  starts a new one; fragments keep their order and text.
pub open spec fn ptext(p: PatternPiece) -> Seq<char> { match p { PatternPiece::Pattern(s) => s@, PatternPiece::Literal(s) => s@ } }
pub type PV = (bool, Seq<char>);                     // (is literal, text)
pub open spec fn pv(p: PatternPiece) -> PV { (p is Literal, ptext(p)) }
// sys::fs::split_path_for_pattern: `s.split('/')` — at least one fragment; the fragments themselves are left abstract
pub uninterp spec fn split_spec(t: Seq<char>) -> Seq<Seq<char>>;
pub broadcast axiom fn axiom_split_nonempty(t: Seq<char>) ensures #[trigger] split_spec(t).len() >= 1;
pub struct SplitIter { pub rest: Ghost<Seq<Seq<char>>>, pub u: u8 }
impl SplitIter {
    #[verifier::external_body]
    pub fn next<'a>(&mut self) -> (r: Option<&'a str>)
        ensures (r is Some) == (old(self).rest@.len() > 0),
            r is Some ==> r->Some_0@ == old(self).rest@[0] && final(self).rest@ == old(self).rest@.skip(1),
            r is None ==> final(self).rest@ == old(self).rest@
    { unimplemented!() }
}
pub mod sys { pub mod fs { use super::super::*;
    #[verifier::external_body]
    pub fn split_path_for_pattern(s: &str) -> (r: SplitIter) ensures r.rest@ == split_spec(s@) { unimplemented!() }
} }
// what the elements of the intermediate queue stand for, whichever type they have (pieces already tagged, or bare texts tagged later)
pub trait FragElem { spec fn ftext(&self) -> Seq<char>; spec fn kind_ok(&self, p: PatternPiece) -> bool; }
impl FragElem for PatternPiece {
    open spec fn ftext(&self) -> Seq<char> { ptext(*self) }
    open spec fn kind_ok(&self, p: PatternPiece) -> bool { (*self is Literal) == (p is Literal) }
}
impl<'a> FragElem for &'a str { open spec fn ftext(&self) -> Seq<char> { self@ } open spec fn kind_ok(&self, p: PatternPiece) -> bool { true } }
impl FragElem for String { open spec fn ftext(&self) -> Seq<char> { self@ } open spec fn kind_ok(&self, p: PatternPiece) -> bool { true } }
pub open spec fn texts<T: FragElem>(s: Seq<T>) -> Seq<Seq<char>> { Seq::new(s.len(), |i: int| s[i].ftext()) }
pub open spec fn cview(cs: Seq<Vec<PatternPiece>>) -> Seq<Seq<PV>> { Seq::new(cs.len(), |i: int| Seq::new(cs[i]@.len(), |j: int| pv(cs[i]@[j]))) }
pub open spec fn singles(lit: bool, fr: Seq<Seq<char>>) -> Seq<Seq<PV>> { Seq::new(fr.len(), |j: int| seq![(lit, fr[j])]) }
pub open spec fn add_first(cs: Seq<Seq<PV>>, e: PV) -> Seq<Seq<PV>> { if cs.len() > 0 { cs.update(cs.len() - 1, cs.last().push(e)) } else { seq![seq![e]] } }
pub open spec fn add_piece(cs: Seq<Seq<PV>>, p: PatternPiece) -> Seq<Seq<PV>> {
    let fr = split_spec(ptext(p));
    add_first(cs, (p is Literal, fr[0])) + singles(p is Literal, fr.skip(1))
}
pub open spec fn comps(pieces: Seq<PatternPiece>, i: int) -> Seq<Seq<PV>> decreases i {
    if i <= 0 { Seq::empty() } else { add_piece(comps(pieces, i - 1), pieces[i - 1]) }
}
// R14: Vec::last_mut -> stub (a reference to the last element, if any; what the caller does through it is the only change)
#[verifier::external_body]
pub fn vx_last_mut<T>(v: &mut Vec<T>) -> (r: Option<&mut T>)
    ensures (r is None) == (old(v)@.len() == 0), r is None ==> final(v)@ == old(v)@,
        r is Some ==> *r->Some_0 == old(v)@.last() && final(v)@ == old(v)@.update(old(v)@.len() - 1, *final(r->Some_0))
{ unimplemented!() }
