// ---- C08 "a match must cover the whole string, not one line of it".  compile_regex (thread-local cache, format!, RegexBuilder)
//      is out of reach; its ASSUMED contract records what its body does, and the flag set is READ FROM THE SOURCE on every run
//      (the literal in `std::format!("(?<flags>){regex_str}")` under `if multiline`) — see flags_of() below, generated.
pub mod fancy_regex {
    use vstd::prelude::*;
    #[verifier::external_body]
    pub struct Regex { _p: u8 }
    #[verifier::external_body]
    pub struct Error { _p: u8 }
    impl Regex {
        pub uninterp spec fn text(&self) -> Seq<char>;        // the pattern text handed to the regex engine
        pub uninterp spec fn flags(&self) -> Set<char>;       // inline flags in effect
        pub uninterp spec fn ci(&self) -> bool;
        #[verifier::external_body]
        pub fn is_match(&self, text: &str) -> (r: Result<bool, Error>)
            ensures match super::match_sem(self.text(), self.flags(), self.ci(), text@) { Some(b) => r == Ok::<bool, Error>(b), None => r is Err }
        { unimplemented!() }
    }
}
// regex-dialect semantics (assumed): what a compiled regex answers; the only facts used about it are the two lemma
// obligations on the flag set below
pub uninterp spec fn match_sem(text: Seq<char>, flags: Set<char>, ci: bool, subject: Seq<char>) -> Option<bool>;
pub uninterp spec fn fix_brackets(text: Seq<char>) -> Seq<char>;     // add_missing_escape_chars_to_regex (not verified)
impl vstd::std_specs::convert::FromSpecImpl<fancy_regex::Error> for error::Error {
    open spec fn obeys_from_spec() -> bool { false }
    open spec fn from_spec(e: fancy_regex::Error) -> Self { arbitrary() }
}
impl From<fancy_regex::Error> for error::Error {
    #[verifier::external_body]
    fn from(e: fancy_regex::Error) -> Self { unimplemented!() }
}
