// ---- prelude (C08): "backslash-escaped and quoted segments as literals".  The two places of the glob-to-regex translator
//  (brush-parser/src/pattern.rs) that see a backslash followed by a character c — rule escape_sequence (outside brackets) and the
//  first alternatives of rule single_char_bracket_member (inside brackets) — must produce regex text that stands for the one literal
//  character c.  Regex syntax (regex-syntax / fancy_regex): outside a class the characters \ . + * ? ( ) | [ ] { } ^ $ are special and
//  every other character stands for itself; a backslash makes an ASCII punctuation character literal, whereas a backslash before a
//  letter or digit is a class, an anchor or an escape code (\d \w \s \b \n \x41 ..) and \< \> are word boundaries.  Inside a class the
//  characters \ ] [ ^ - & ~ are special.
pub open spec fn regex_special(c: char) -> bool {
    c == '\\' || c == '.' || c == '+' || c == '*' || c == '?' || c == '(' || c == ')' || c == '|' || c == '[' || c == ']' || c == '{' || c == '}' || c == '^' || c == '$'
}
pub open spec fn class_special(c: char) -> bool { c == '\\' || c == ']' || c == '[' || c == '^' || c == '-' || c == '&' || c == '~' }
pub open spec fn ascii_alnum(c: char) -> bool { ('0' <= c <= '9') || ('a' <= c <= 'z') || ('A' <= c <= 'Z') }
pub open spec fn ascii_punct(c: char) -> bool { ('!' <= c <= '/') || (':' <= c <= '@') || ('[' <= c <= '`') || ('{' <= c <= '~') }
// an escaped punctuation character other than < > is that character
pub open spec fn escapable(c: char) -> bool { ascii_punct(c) && c != '<' && c != '>' }
pub open spec fn literal_outside(out: Seq<char>, c: char) -> bool { (out == seq![c] && !regex_special(c)) || (out == seq!['\\', c] && escapable(c)) }
// inside a class an escaped character that is not a letter or digit is that character (no anchors there)
pub open spec fn literal_in_class(out: Seq<char>, c: char) -> bool { (out == seq![c] && !class_special(c)) || (out == seq!['\\', c] && !ascii_alnum(c)) }
// std: char::is_ascii_alphanumeric / is_ascii_punctuation
pub open spec fn cond_is_ascii_alphanumeric(c: char) -> bool { ascii_alnum(c) }
pub open spec fn cond_is_ascii_punctuation(c: char) -> bool { ascii_punct(c) }
