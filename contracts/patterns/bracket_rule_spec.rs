// ---- prelude: the shape of a bracket expression (POSIX XBD 9.3.5 / XCU 2.13.1, bash manual "Pattern Matching"):
//        '['  then an optional '!' or '^' (non-matching list)  then an optional ']' (a literal member when it comes first)
//        then the other members  then the closing ']'.
//  The PEG rule `bracket_expression` of brush-parser/src/pattern.rs is read element by element into `elem(i)` below this prelude
//  (generated on every run).  PEG semantics (ASSUMED, peg 0.8): a sequence matches its elements in order; `e?` and `e*` are greedy and
//  are never re-entered once left (no backtracking into them); a labelled element binds its result to the label.
pub enum Rule { InvertChar, LeadingCloseBracket, BracketMember, Other }
pub enum Elem { Lit(char), One(Rule, Label), Opt(Rule, Label), Star(Rule, Label) }
pub enum Label { Invert, Leading, Rest, NoLabel, OtherLabel }
// what the action block sees
pub struct Caps { pub invert: bool, pub leading: bool, pub rest_from: int, pub rest_to: int }
pub open spec fn caps0() -> Caps { Caps { invert: false, leading: false, rest_from: -1, rest_to: -1 } }

// one `bracket_member()`: abstract, except that it never starts at a `]` (rule single_char_bracket_member: `[c if c != ']']`; a class
// starts with `[:`, an escape with a backslash) and consumes something
pub uninterp spec fn member_match(s: Seq<char>, pos: int) -> Option<int>;
pub uninterp spec fn members_end(s: Seq<char>, pos: int) -> int;              // where `bracket_member()*` stops when started at pos
pub axiom fn axiom_member(s: Seq<char>, pos: int)
    ensures
        member_match(s, pos) is Some ==> 0 <= pos < s.len() && s[pos] != ']' && member_match(s, pos)->Some_0 > pos,
        pos <= members_end(s, pos),
        (members_end(s, pos) == pos) == (member_match(s, pos) is None);

pub open spec fn rule_match(r: Rule, s: Seq<char>, pos: int) -> Option<int> {
    match r {
        Rule::InvertChar => if 0 <= pos < s.len() && is_invert_char(s[pos]) { Some(pos + 1) } else { None },
        Rule::LeadingCloseBracket => if 0 <= pos < s.len() && s[pos] == leading_close_char() { Some(pos + 1) } else { None },
        Rule::BracketMember => member_match(s, pos),
        Rule::Other => None,
    }
}
pub open spec fn bind(c: Caps, l: Label, matched: bool, from: int, to: int) -> Caps {
    match l {
        Label::Invert => Caps { invert: matched, ..c },
        Label::Leading => Caps { leading: matched, ..c },
        Label::Rest => Caps { rest_from: from, rest_to: to, ..c },
        _ => c,
    }
}
// the sequence elem(i), elem(i+1), .. matched at pos: `seq_match_<i>` is generated below this prelude, one definition per element
// (no recursion, so no unfolding fuel is involved), each an instance of this step:
//   Lit(ch)      the character must be there, go on behind it
//   One(r, l)    the rule must match; bind
//   Opt(r, l)    if the rule matches go on behind it, else go on at the same place; bind whether it matched
//   Star(r, l)   (members only) go on where the greedy repetition stops; bind the range
// the specification, written directly
pub open spec fn posix_bracket(s: Seq<char>, pos: int) -> Option<(int, Caps)> {
    if !(0 <= pos < s.len() && s[pos] == '[') { None }
    else {
        let p1 = pos + 1;
        let inv = p1 < s.len() && (s[p1] == '!' || s[p1] == '^');
        let p2 = if inv { p1 + 1 } else { p1 };
        let lead = p2 < s.len() && s[p2] == ']';
        let p3 = if lead { p2 + 1 } else { p2 };
        let p4 = members_end(s, p3);
        if p4 < s.len() && s[p4] == ']' { Some((p4 + 1, Caps { invert: inv, leading: lead, rest_from: p3, rest_to: p4 })) } else { None }
    }
}
