// ---- spec tables (independent of the code above)
// characters with a meaning in the regex dialect outside a class (fancy_regex / regex-syntax)
pub open spec fn rx_special(c: char) -> bool {
    c == '\\' || c == '^' || c == '$' || c == '.' || c == '|' || c == '?' || c == '*' || c == '+' || c == '(' || c == ')' || c == '[' || c == ']' || c == '{' || c == '}'
}
// characters for which the translator's escape_sequence rule keeps "\c" instead of dropping the backslash
pub open spec fn tr_keeps_escape(c: char) -> bool { rx_special(c) || c == '-' }
// characters that can start a glob construct in the pattern grammar (wildcard, bracket, escape)
pub open spec fn glob_starter(c: char) -> bool { c == '*' || c == '?' || c == '[' || c == '\\' }

// C04 link 3a/3b, for every char
pub proof fn lemma_literal_escape_tables(c: char)
    ensures
        rx_special(c) ==> tr_keeps_escape(c),          // an escaped literal char stays escaped through the translator
        !rx_special(c) ==> !glob_starter(c),           // an unescaped literal char cannot start a glob construct
{}

