// ---- prelude: the consumers of a pattern configure the match (C08: `[[ s == p ]]`, `[[ s != p ]]`, `[ ]`-style string tests).
//  bash manual, `[[ ]]`: "the string to the right of the operator is considered a pattern and matched ... as if the extglob shell
//  option were enabled. ... If the nocasematch shell option is enabled, the match is performed without regard to the case of
//  alphabetic characters. The return value is 0 if the string matches (==) or does not match (!=) the pattern".
//  brush keeps extglob as a run-time option; the contract is: the pattern that decides the test is the expanded right operand with
//  extended_globbing = the shell's extglob option and case-insensitivity = the shell's NOCASEMATCH option (not nocaseglob), the
//  subject is the expanded left operand, and `!=` is the negation of `==` on the same pattern and subject.
pub mod error { use vstd::prelude::*; #[verifier::external_body] pub struct Error { _p: u8 } }
pub mod ast {
    use vstd::prelude::*;
    #[verifier::external_body] pub struct Word { _p: u8 }
    #[verifier::external_body] pub struct BinaryPredicate { _p: u8 }
}
pub mod patterns { use vstd::prelude::*; #[verifier::external_body] pub struct Pattern { _p: u8 } }
#[verifier::external_body] pub struct ExecutionParameters { _p: u8 }
pub uninterp spec fn pat_with_extglob(p: patterns::Pattern, v: bool) -> patterns::Pattern;
pub uninterp spec fn pat_with_nocase(p: patterns::Pattern, v: bool) -> patterns::Pattern;
pub uninterp spec fn pat_from(s: Seq<char>) -> patterns::Pattern;
pub uninterp spec fn match_spec(p: patterns::Pattern, s: Seq<char>) -> Option<bool>;   // None: matching itself failed
impl patterns::Pattern {
    #[verifier::external_body]
    pub fn set_extended_globbing(self, v: bool) -> (r: Self) ensures r == pat_with_extglob(self, v) { unimplemented!() }
    #[verifier::external_body]
    pub fn set_case_insensitive(self, v: bool) -> (r: Self) ensures r == pat_with_nocase(self, v) { unimplemented!() }
    #[verifier::external_body]
    pub fn exactly_matches(&self, value: &str) -> (r: Result<bool, error::Error>)
        ensures match match_spec(*self, value@) { Some(b) => r == Ok::<bool, error::Error>(b), None => r is Err }
    { unimplemented!() }
}
// R14: `patterns::Pattern::from(right)` (From<&str>)
#[verifier::external_body]
pub fn pattern_from_str(s: &str) -> (r: patterns::Pattern) ensures r == pat_from(s@) { unimplemented!() }
#[verifier::external_body] pub struct Shell { _p: u8 }
impl Shell {
    pub uninterp spec fn opts(&self) -> RuntimeOptions;
    pub uninterp spec fn words(&self) -> Seq<Seq<char>>;            // ghost: results of basic_expand_word so far
    pub uninterp spec fn pats(&self) -> Seq<patterns::Pattern>;     // ghost: results of basic_expand_pattern so far
    #[verifier::external_body]
    pub fn options(&self) -> (r: &RuntimeOptions) ensures *r == self.opts() { unimplemented!() }
    #[verifier::external_body]
    pub fn trace_command(&mut self, params: &ExecutionParameters, text: String)
        ensures final(self).opts() == old(self).opts(), final(self).words() == old(self).words(), final(self).pats() == old(self).pats()
    { unimplemented!() }
}
pub mod expansion {
    use vstd::prelude::*;
    use super::*;
    #[verifier::external_body]
    pub fn basic_expand_word(shell: &mut Shell, params: &ExecutionParameters, word_str: &ast::Word) -> (r: Result<String, error::Error>)
        ensures final(shell).opts() == old(shell).opts(), final(shell).pats() == old(shell).pats(),
            r is Ok ==> final(shell).words() == old(shell).words().push(r->Ok_0@),
    { unimplemented!() }
    #[verifier::external_body]
    pub fn basic_expand_pattern(shell: &mut Shell, params: &ExecutionParameters, word_str: &ast::Word) -> (r: Result<patterns::Pattern, error::Error>)
        ensures final(shell).opts() == old(shell).opts(), final(shell).words() == old(shell).words(),
            r is Ok ==> final(shell).pats() == old(shell).pats().push(r->Ok_0),
    { unimplemented!() }
}
// R14: the xtrace text `[[ s op right ]]` (format! + quote_if_needed) -> stub
#[verifier::external_body]
pub fn vx_trace_text(s: &String, op: &ast::BinaryPredicate, expanded_right: &String) -> String { unimplemented!() }
// the pattern that must decide a conditional test, and its verdict
pub open spec fn cond_pattern(p: patterns::Pattern, o: RuntimeOptions) -> patterns::Pattern {
    pat_with_nocase(pat_with_extglob(p, o.extended_globbing), o.case_insensitive_conditionals)
}
pub open spec fn cond_verdict(res: Result<bool, error::Error>, p: patterns::Pattern, o: RuntimeOptions, s: Seq<char>, negate: bool) -> bool {
    match match_spec(cond_pattern(p, o), s) {
        Some(b) => res == Ok::<bool, error::Error>(if negate { !b } else { b }),
        None => res is Err,
    }
}
