pub mod error {
    use vstd::prelude::*;
    #[verifier::external_body]
    pub struct Error { _p: u8 }
}
// the glob-to-regex translator (brush-parser pattern.rs, a peg::parser! grammar) is abstract: some function of its input
pub open spec fn esc(s: Seq<char>) -> Seq<char> decreases s.len() {
    if s.len() == 0 { Seq::empty() } else if rx_special(s.last()) { esc(s.drop_last()).push('\\').push(s.last()) } else { esc(s.drop_last()).push(s.last()) }
}
pub open spec fn piece_text(p: patterns::PatternPiece) -> Seq<char> { match p { patterns::PatternPiece::Pattern(s) => s@, patterns::PatternPiece::Literal(s) => esc(s@) } }
pub open spec fn pieces_text(ps: Seq<patterns::PatternPiece>) -> Seq<char> decreases ps.len() {
    if ps.len() == 0 { Seq::empty() } else { pieces_text(ps.drop_last()) + piece_text(ps.last()) }
}
pub uninterp spec fn translate_spec(p: Seq<char>, ext: bool) -> Result<Seq<char>, error::Error>;



// C04 link 1: quoting decides the tag, the tag decides literal-vs-pattern; the string itself is never touched
impl FromSpecImpl<ExpansionPiece> for patterns::PatternPiece {
    open spec fn obeys_from_spec() -> bool { true }
    open spec fn from_spec(p: ExpansionPiece) -> Self { match p { ExpansionPiece::Unsplittable(s) => patterns::PatternPiece::Literal(s), ExpansionPiece::Splittable(s) => patterns::PatternPiece::Pattern(s) } }
}
impl FromSpecImpl<ExpansionPiece> for regex::RegexPiece {
    open spec fn obeys_from_spec() -> bool { true }
    open spec fn from_spec(p: ExpansionPiece) -> Self { match p { ExpansionPiece::Unsplittable(s) => regex::RegexPiece::Literal(s), ExpansionPiece::Splittable(s) => regex::RegexPiece::Pattern(s) } }
}
impl FromSpecImpl<ExpansionPiece> for String {
    open spec fn obeys_from_spec() -> bool { true }
    open spec fn from_spec(p: ExpansionPiece) -> Self { match p { ExpansionPiece::Unsplittable(s) => s, ExpansionPiece::Splittable(s) => s } }
}
pub open spec fn piece_str(p: ExpansionPiece) -> String { match p { ExpansionPiece::Unsplittable(s) => s, ExpansionPiece::Splittable(s) => s } }
