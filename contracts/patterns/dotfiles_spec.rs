// ---- C08 (pathname expansion): "hides dot-files unless the pattern component starts with a dot" (POSIX XCU 2.13.3: a leading
//  <period> in a filename "shall be matched explicitly" by a period "as the first character" of the pattern component; quoting
//  does not matter, and an empty quoted piece in front does not count as a character).
pub open spec fn piece_str(p: PatternPiece) -> Seq<char> { match p { PatternPiece::Pattern(s) => s@, PatternPiece::Literal(s) => s@ } }
pub open spec fn flat_pieces(ps: Seq<PatternPiece>) -> Seq<char> decreases ps.len() {
    if ps.len() == 0 { Seq::empty() } else { flat_pieces(ps.drop_last()) + piece_str(ps.last()) }
}
pub open spec fn component_starts_with_dot(ps: Seq<PatternPiece>) -> bool { flat_pieces(ps).len() > 0 && flat_pieces(ps)[0] == '.' }
// R14 stubs for the iterator chains over the pieces of one component
#[verifier::external_body]
pub fn pieces_flatten(component: &Vec<PatternPiece>) -> (r: String) ensures r@ == flat_pieces(component@) { unimplemented!() }
#[verifier::external_body]
pub fn pieces_any_starts_with(component: &Vec<PatternPiece>, c: char) -> (r: bool)
    ensures r == exists|i: int| 0 <= i < component@.len() && piece_str(#[trigger] component@[i]).len() > 0 && piece_str(component@[i])[0] == c
{ unimplemented!() }
#[verifier::external_body]
pub fn pieces_first_starts_with(component: &Vec<PatternPiece>, c: char) -> (r: bool)
    ensures r == (component@.len() > 0 && piece_str(component@[0]).len() > 0 && piece_str(component@[0])[0] == c)
{ unimplemented!() }
pub struct FilenameExpansionOptions { pub require_dot_in_pattern_to_match_dot_files: bool }
