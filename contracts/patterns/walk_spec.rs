// ---- the component loop of Pattern::expand as a skeleton: what each directory listing is told about dot-files.
//  Every listing made for a glob component must hide dot-files unless THAT component's text starts with a dot (or the option says
//  dot-files need no dot) — not because an earlier component did.
#[verifier::external_body] pub struct PathBuf { _p: u8 }
pub mod error { use vstd::prelude::*; #[verifier::external_body] pub struct Error { _p: u8 } }
pub struct Pattern { pub pieces: Vec<PatternPiece>, pub enable_extended_globbing: bool, pub case_insensitive: bool }      // projection (fields checked)
pub struct Listing { pub comp: Seq<PatternPiece>, pub allow: bool }
#[verifier::external_body] pub struct WalkLog { _p: u8 }                          // ghost carrier: the listings made so far
impl WalkLog { pub uninterp spec fn listings(&self) -> Seq<Listing>; }
pub open spec fn listing_ok(l: Listing, o: FilenameExpansionOptions) -> bool {
    l.allow == (!o.require_dot_in_pattern_to_match_dot_files || component_starts_with_dot(l.comp))
}
pub open spec fn listings_ok_from(log: Seq<Listing>, from: int, o: FilenameExpansionOptions) -> bool {
    forall|k: int| from <= k < log.len() ==> listing_ok(#[trigger] log[k], o)
}
// R14 stubs
#[verifier::external_body] pub fn component_needs_expansion(p: &Pattern, component: &Vec<PatternPiece>) -> bool { unimplemented!() }   // the iter().any(..) predicate: unit U10
#[verifier::external_body] pub fn literal_component_step(paths_so_far: &mut Vec<PathBuf>, component: &Vec<PatternPiece>) { unimplemented!() }
#[verifier::external_body] pub fn take_paths(paths_so_far: &mut Vec<PathBuf>) -> Vec<PathBuf> { unimplemented!() }                      // std::mem::take
#[verifier::external_body]
pub fn subpattern_of(p: &Pattern, component: &Vec<PatternPiece>) -> (r: Pattern) ensures r.pieces@ == component@ { unimplemented!() }    // Self::from(&component).set_..(..).set_..(..)
// regex + read_dir + filter(matches_regex) + filter(matches_dotfile_policy) + collect: one listing, told whether dot-files may match
#[verifier::external_body]
pub fn list_matching(log: &mut WalkLog, current_path: &PathBuf, subpattern: &Pattern, allow_dot_files: bool) -> (r: Result<Vec<PathBuf>, error::Error>)
    ensures final(log).listings() == old(log).listings().push(Listing { comp: subpattern.pieces@, allow: allow_dot_files })
{ unimplemented!() }
// bash sorts the names a pattern matches; here every directory's matches are sorted as a whole (Vec::sort: the full paths, ascending) and
// then put behind those of the directories before it — which are in order themselves — so only a sorted listing may be appended, and
// nothing may reorder the accumulated list afterwards
pub uninterp spec fn sorted_paths(v: Seq<PathBuf>) -> bool;
#[verifier::external_body] pub fn sort_paths(v: &mut Vec<PathBuf>) ensures sorted_paths(final(v)@) { unimplemented!() }                                   // Vec::sort
#[verifier::external_body] pub fn append_paths(dst: &mut Vec<PathBuf>, src: &mut Vec<PathBuf>)
    requires
        //@ patterns.rs:append_paths:requires#0 | C08,C05 the-matches-of-a-directory-are-sorted-before-they-join-the-result
        sorted_paths(old(src)@),
    ensures final(dst)@ == old(dst)@ + old(src)@ { unimplemented!() }                                                                                      // Vec::append
// R14: `v.sort_by(closure)` / `sort_by_key` / `sort_unstable..` with an ordering this unit does not read: some reordering of v
#[verifier::external_body] pub fn reorder_paths_somehow(v: &mut Vec<PathBuf>) ensures final(v)@.len() == old(v)@.len() { unimplemented!() }
