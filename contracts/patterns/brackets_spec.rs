// ---- C08: regex.rs add_missing_escape_chars_to_regex runs over every translated pattern before it is compiled.  Inside a bracket
//  expression a `[` that does not open a class name ("[:") is a literal; the regex crates want it escaped.  Which characters are
//  "inside a bracket expression" depends on which `[` `]` are themselves escaped, and in regex syntax a backslash escapes the
//  next character unless it is itself escaped:
pub open spec fn esc(s: Seq<char>, i: int) -> bool decreases i { if i <= 0 { false } else { s[i - 1] == '\\' && !esc(s, i - 1) } }
// bracket state before character i
pub open spec fn in_br(s: Seq<char>, i: int) -> bool decreases i {
    if i <= 0 { false } else {
        let c = s[i - 1];
        if c == '[' && !esc(s, i - 1) && !in_br(s, i - 1) { true }
        else if c == ']' && !esc(s, i - 1) && in_br(s, i - 1) { false }
        else { in_br(s, i - 1) }
    }
}
pub open spec fn needs_backslash(s: Seq<char>, i: int) -> bool {
    0 <= i < s.len() && s[i] == '[' && !esc(s, i) && in_br(s, i) && !(i + 1 < s.len() && s[i + 1] == ':')
}
// byte offsets of the characters among the first n that need a backslash, ascending
pub open spec fn escape_positions(s: Seq<char>, n: int) -> Seq<usize> decreases n {
    if n <= 0 { Seq::empty() } else {
        let p = escape_positions(s, n - 1);
        if needs_backslash(s, n - 1) { p.push(byte_len(s.take(n - 1)) as usize) } else { p }
    }
}
#[verifier::external_body]
pub fn str_chars_vec(s: &str) -> (r: Vec<char>) ensures r@ == s@ { s.chars().collect() }
pub axiom fn axiom_str_fits_usize(s: &str) ensures byte_len(s@) <= isize::MAX;
// String::with_capacity(n): an empty string (std)
pub assume_specification [String::with_capacity] (n: usize) -> (r: String) ensures r@ == Seq::<char>::empty();
