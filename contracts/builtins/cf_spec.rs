// ---- POSIX XCU 2.14 special built-ins break / continue / return / exit, plus what bash does outside POSIX's domain.
//  break n / continue n, n >= 1: "exit from (resume) the n-th enclosing loop": status 0, flow = n-1 further levels after this one.
//  n greater than the number of enclosing loops: bash leaves (resumes) the outermost one ("If n is greater than the number of
//  enclosing loops, the outermost enclosing loop shall be exited", POSIX break); outside any loop bash prints "only meaningful in a
//  loop" and goes on with status 0.  A function body starts with no enclosing loop (bash resets loop_level on a call).
//  n <= 0: bash prints "loop count out of range", returns 1 and leaves every enclosing loop (breaking = loop_level).
//  return [n] / exit [n]: "the exit status shall be n ... if n is not specified, the value of $?"; n is reduced to 8 bits
//  (bash: n & 0377, i.e. Euclidean n mod 256: return -1 -> 255, exit 257 -> 1).
//  return outside a function or sourced script: bash prints an error and returns a failure status without any control flow.
pub struct Error { pub k: u8 }
#[verifier::external_body]
pub struct CtxRest { _p: u8 }
#[verifier::external_body]
pub struct Shell { _p: u8 }
impl Shell {
    pub uninterp spec fn status(&self) -> u8;
    pub uninterp spec fn in_fn(&self) -> bool;
    pub uninterp spec fn in_src(&self) -> bool;
    // ghost: how many loops enclose the command in the current function / subshell (bash's loop_level); brush keeps no such count
    pub uninterp spec fn loop_depth(&self) -> nat;
    #[verifier::external_body]
    pub fn last_exit_status(&self) -> (r: u8) ensures r == self.status() { unimplemented!() }
    #[verifier::external_body]
    pub fn in_function(&self) -> (r: bool) ensures r == self.in_fn() { unimplemented!() }
    #[verifier::external_body]
    pub fn in_sourced_script(&self) -> (r: bool) ensures r == self.in_src() { unimplemented!() }
    // C16: the EXIT trap is run by the front end, once, after the program's result is known (Shell::on_exit; U17).  A builtin that asks
    // the shell to leave must not run it as well: ghost count of on_exit runs
    pub uninterp spec fn on_exit_runs(&self) -> nat;
    #[verifier::external_body]
    pub fn on_exit(&mut self) -> (r: Result<(), Error>)
        ensures final(self).on_exit_runs() == old(self).on_exit_runs() + 1 { unimplemented!() }
    #[verifier::external_body] pub fn is_subshell(&self) -> bool { unimplemented!() }
    #[verifier::external_body]
    pub fn set_last_exit_status(&mut self, status: u8)
        ensures final(self).status() == status, final(self).on_exit_runs() == old(self).on_exit_runs(), final(self).in_fn() == old(self).in_fn(), final(self).in_src() == old(self).in_src(), final(self).loop_depth() == old(self).loop_depth() { unimplemented!() }
}
// projection of brush-core commands.rs ExecutionContext (field `shell` checked against the source)
pub struct ExecutionContext<'a> { pub shell: &'a mut Shell, pub rest: CtxRest }
pub mod brush_core { pub use super::*; }

pub open spec fn mod256(n: int) -> u8 { (n % 256) as u8 }   // spec `%` is Euclidean

pub proof fn lemma_and_ff_i32(c: i32) ensures ((c & 0xFF) as u8) == mod256(c as int)
{
    assert(0 <= (c & 0xFF) < 256) by (bit_vector);
    let q: i32 = c >> 8u32;
    assert(c == (c >> 8u32) * 256 + (c & 0xFF)) by (bit_vector);
    vstd::arithmetic::div_mod::lemma_fundamental_div_mod_converse(c as int, 256, q as int, (c & 0xFF) as int);
}
pub proof fn lemma_and_ff_i64(c: i64) ensures ((c & 0xFF) as u8) == mod256(c as int)
{
    assert(0 <= (c & 0xFF) < 256) by (bit_vector);
    let q: i64 = c >> 8u64;
    assert(c == (c >> 8u64) * 256 + (c & 0xFF)) by (bit_vector);
    vstd::arithmetic::div_mod::lemma_fundamental_div_mod_converse(c as int, 256, q as int, (c & 0xFF) as int);
}
