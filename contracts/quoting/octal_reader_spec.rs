// ---- C13, the read side in brush: octal escapes of $'...' (escape.rs expand_backslash_escapes).  bash manual 3.1.2.4: "\nnn the
//  eight-bit character whose value is the octal value nnn (one to three octal digits)" — at most THREE digits in all, the leading 0
//  of \0nn included.  (echo -e and printf %b use the other convention, \0nnn: a 0 and up to three more.)  The writer of unit U16
//  emits exactly three digits, so the reader must stop after three whatever follows.
pub enum EscapeExpansionMode { EchoBuiltin, AnsiCQuotes }
#[verifier::external_body] pub struct Error { _p: u8 }
pub open spec fn is_oct(c: char) -> bool { '0' <= c && c <= '7' }
pub open spec fn oct_run(s: Seq<char>, limit: int) -> int decreases s.len() {    // length of the longest prefix of octal digits, at most `limit`
    if limit <= 0 || s.len() == 0 || !is_oct(s[0]) { 0 } else { 1 + oct_run(s.skip(1), limit - 1) }
}
pub open spec fn oct_value(s: Seq<char>) -> int decreases s.len() { if s.len() == 0 { 0 } else { oct_value(s.drop_last()) * 8 + (s.last() as int - '0' as int) } }
// the character cursor (`std::str::Chars` in the original) with the text still to be read as ghost state
#[verifier::external_body] pub struct CharCursor { _p: u8 }
impl CharCursor { pub uninterp spec fn rest(&self) -> Seq<char>; }
// R14: `it.take_while_ref(|c| { if taken < max && matches!(c, '0'..='7') { taken += 1; true } else { false } })` (itertools; a closure
// that counts) collected into a String -> the longest run of at most `limit` octal digits; the cursor stays on the next character
#[verifier::external_body]
pub fn take_octal_while(it: &mut CharCursor, limit: usize) -> (r: String)
    ensures r@ == old(it).rest().take(oct_run(old(it).rest(), limit as int)), final(it).rest() == old(it).rest().skip(oct_run(old(it).rest(), limit as int)),
{ unimplemented!() }
// int_utils::parse::<u8>(s, 8): Ok(value) when it fits a byte
#[verifier::external_body]
pub fn parse_u8_octal(s: &str) -> (r: Result<u8, Error>) ensures r is Ok ==> r->Ok_0 as int == oct_value(s@) { unimplemented!() }
pub proof fn lemma_oct_run_bound(s: Seq<char>, limit: int) ensures 0 <= oct_run(s, limit) <= (if limit < 0 { 0 } else { limit }), oct_run(s, limit) <= s.len() decreases s.len()
{ if limit > 0 && s.len() > 0 && is_oct(s[0]) { lemma_oct_run_bound(s.skip(1), limit - 1); } }
