// ================= writers as "one piece per element" concatenations, and the round trip of each against the reader
pub open spec fn flat_rb<A>(s: Seq<A>, f: spec_fn(int, A) -> Seq<char>, base: int) -> Seq<char> decreases s.len() {
    if s.len() == 0 { Seq::empty() } else { flat_rb(s.drop_last(), f, base) + f(base + s.len() - 1, s.last()) }
}
pub open spec fn flat_r<A>(s: Seq<A>, f: spec_fn(int, A) -> Seq<char>) -> Seq<char> { flat_rb(s, f, 0) }
pub open spec fn flat_l<A>(s: Seq<A>, f: spec_fn(int, A) -> Seq<char>, base: int) -> Seq<char> decreases s.len() {
    if s.len() == 0 { Seq::empty() } else { f(base, s[0]) + flat_l(s.skip(1), f, base + 1) }
}
pub proof fn lemma_flat_lr<A>(s: Seq<A>, f: spec_fn(int, A) -> Seq<char>, base: int)
    ensures flat_rb(s, f, base) =~= flat_l(s, f, base)
    decreases s.len()
{
    if s.len() == 0 {
    } else if s.len() == 1 {
        assert(s.drop_last().len() == 0);
        assert(s.skip(1).len() == 0);
        assert(flat_rb(s.drop_last(), f, base) =~= Seq::<char>::empty());
        assert(flat_l(s.skip(1), f, base + 1) =~= Seq::<char>::empty());
        assert(s.last() == s[0]);
    } else {
        lemma_flat_lr(s.drop_last(), f, base);
        lemma_flat_lr(s.skip(1), f, base + 1);
        lemma_flat_lr(s.drop_last().skip(1), f, base + 1);
        assert(s.drop_last().skip(1) =~= s.skip(1).drop_last());
        assert(s.drop_last()[0] == s[0]);
        assert(s.skip(1).last() == s.last());
        // flat_rb(s) = flat_rb(dl) + f(last) = flat_l(dl) + f(last) = f(s0) + flat_l(dl.skip1, b+1) + f(last)
        // flat_l(s)  = f(s0) + flat_l(sk1, b+1) = f(s0) + flat_rb(sk1, b+1) = f(s0) + flat_rb(sk1.dl, b+1) + f(b+1+len-2, last)
        assert(flat_rb(s.skip(1), f, base + 1) =~= flat_rb(s.skip(1).drop_last(), f, base + 1) + f(base + 1 + s.skip(1).len() - 1, s.skip(1).last()));
    }
}
// ---- double quotes
pub open spec fn dq_piece() -> spec_fn(int, char) -> Seq<char> { |i: int, c: char| if dq_special(c) { seq!['\\', c] } else { seq![c] } }
pub proof fn lemma_dq_scan(s: Seq<char>, base: int)
    ensures dq_scan(flat_l(s, dq_piece(), base) + seq!['"']) == Some((s, Seq::<char>::empty()))
    decreases s.len()
{
    let w = flat_l(s, dq_piece(), base) + seq!['"'];
    if s.len() == 0 {
        assert(w =~= seq!['"']);
        assert(w.skip(1) =~= Seq::<char>::empty());
    } else {
        lemma_dq_scan(s.skip(1), base + 1);
        let rest = flat_l(s.skip(1), dq_piece(), base + 1) + seq!['"'];
        let c = s[0];
        if dq_special(c) {
            assert(w =~= seq!['\\', c] + rest);
            assert(w.skip(2) =~= rest);
        } else {
            assert(w =~= seq![c] + rest);
            assert(w.skip(1) =~= rest);
        }
        assert(seq![c] + s.skip(1) =~= s);
    }
}
pub proof fn lemma_dq_word(s: Seq<char>)
    ensures reads_as(seq!['"'] + flat_r(s, dq_piece()) + seq!['"'], s)
{
    lemma_flat_lr(s, dq_piece(), 0);
    lemma_dq_scan(s, 0);
    let w = seq!['"'] + flat_r(s, dq_piece()) + seq!['"'];
    assert(w.skip(1) =~= flat_l(s, dq_piece(), 0) + seq!['"']);
    assert(s + Seq::<char>::empty() =~= s);
    assert(w[0] == '"');
    assert(read_unq(Seq::<char>::empty(), false) == Some(Seq::<char>::empty()));
}
// ---- backslash escaping: `esc(i, c)` says whether element i is written with a backslash
pub open spec fn bs_piece(esc: spec_fn(int, char) -> bool) -> spec_fn(int, char) -> Seq<char> { |i: int, c: char| if esc(i, c) { seq!['\\', c] } else { seq![c] } }
pub open spec fn bs_ok(s: Seq<char>, esc: spec_fn(int, char) -> bool, base: int) -> bool {
    forall|i: int| 0 <= i < s.len() ==> {
        let c = #[trigger] s[i];
        &&& esc(base + i, c) ==> c != '\n'
        &&& !esc(base + i, c) ==> (!unquoted_special(c) || (special_at_start_only(c) && base + i != 0))
    }
}
pub proof fn lemma_bs_read(s: Seq<char>, esc: spec_fn(int, char) -> bool, base: int)
    requires bs_ok(s, esc, base), base >= 0,
    ensures read_unq(flat_l(s, bs_piece(esc), base), base == 0) == Some(s)
    decreases s.len()
{
    let w = flat_l(s, bs_piece(esc), base);
    if s.len() == 0 {
    } else {
        let c = s[0];
        assert(s[0] == c);
        assert forall|i: int| 0 <= i < s.skip(1).len() implies ({
            let d = #[trigger] s.skip(1)[i];
            &&& esc(base + 1 + i, d) ==> d != '\n'
            &&& !esc(base + 1 + i, d) ==> (!unquoted_special(d) || (special_at_start_only(d) && base + 1 + i != 0))
        }) by { assert(s.skip(1)[i] == s[i + 1]); }
        lemma_bs_read(s.skip(1), esc, base + 1);
        let rest = flat_l(s.skip(1), bs_piece(esc), base + 1);
        if esc(base, c) {
            assert(w =~= seq!['\\', c] + rest);
            assert(w.skip(2) =~= rest);
        } else {
            assert(w =~= seq![c] + rest);
            assert(w.skip(1) =~= rest);
        }
        assert(seq![c] + s.skip(1) =~= s);
    }
}
// an unescaped text is the special case "nothing escaped"
pub proof fn lemma_raw_read(s: Seq<char>)
    requires bs_ok(s, |i: int, c: char| false, 0),
    ensures read_unq(s, true) == Some(s)
{
    let esc = |i: int, c: char| false;
    lemma_bs_read(s, esc, 0);
    lemma_flat_id(s, esc, 0);
}
pub proof fn lemma_flat_id(s: Seq<char>, esc: spec_fn(int, char) -> bool, base: int)
    requires forall|i: int, c: char| !(#[trigger] esc(i, c)),
    ensures flat_l(s, bs_piece(esc), base) =~= s
    decreases s.len()
{
    if s.len() > 0 { lemma_flat_id(s.skip(1), esc, base + 1); assert(seq![s[0]] + s.skip(1) =~= s); }
}

// ---- ANSI-C quoting.  `flag(c)`: the writer's "needs an octal escape" predicate (the code's needs_ansi_c_quoting)
pub open spec fn oct_digit(k: int) -> char { ('0' as int + k) as char }
pub open spec fn oct3(v: int) -> Seq<char> { seq!['\\', oct_digit(v / 64), oct_digit((v / 8) % 8), oct_digit(v % 8)] }
pub open spec fn ansi_piece(flag: spec_fn(char) -> bool) -> spec_fn(int, char) -> Seq<char> {
    |i: int, c: char|
        if c == '\x07' { seq!['\\', 'a'] } else if c == '\x08' { seq!['\\', 'b'] } else if c == '\x1b' { seq!['\\', 'E'] } else if c == '\x0c' { seq!['\\', 'f'] }
        else if c == '\n' { seq!['\\', 'n'] } else if c == '\r' { seq!['\\', 'r'] } else if c == '\t' { seq!['\\', 't'] } else if c == '\x0b' { seq!['\\', 'v'] }
        else if c == '\\' { seq!['\\', '\\'] } else if c == '\'' { seq!['\\', '\''] }
        else if flag(c) { oct3((c as u8) as int) }
        else { seq![c] }
}
// what the round trip needs of the flag: a flagged character is written as the octal of `c as u8`, so it must be below 0x80 (else
// the escape denotes a byte, not that character) and not NUL
pub open spec fn ansi_flag_ok(flag: spec_fn(char) -> bool) -> bool { forall|c: char| #[trigger] flag(c) ==> (c as u32) < 0x80 }
pub proof fn lemma_oct3(v: int)
    requires 0 < v < 0x80,
    ensures ({ let w = oct3(v); oct_len(w.skip(1)) == 3 && oct_value(w.skip(1), 3) == v }),
{
    let w = oct3(v);
    let t = w.skip(1);
    assert(t.len() == 3);
    assert(t[0] == oct_digit(v / 64) && t[1] == oct_digit((v / 8) % 8) && t[2] == oct_digit(v % 8));
    assert(0 <= v / 64 <= 1 && 0 <= (v / 8) % 8 <= 7 && 0 <= v % 8 <= 7);
    assert(is_oct(t[0]) && is_oct(t[1]) && is_oct(t[2]));
    assert(oct_val(t[0]) == v / 64 && oct_val(t[1]) == (v / 8) % 8 && oct_val(t[2]) == v % 8);
    assert((v / 64) * 64 + ((v / 8) % 8) * 8 + v % 8 == v);
}
#[verifier::spinoff_prover]   // own solver instance: the proof is long and must not depend on what else is in the file
#[verifier::rlimit(100)]
pub proof fn lemma_ansi_scan(s: Seq<char>, flag: spec_fn(char) -> bool, base: int)
    requires ansi_flag_ok(flag), forall|i: int| 0 <= i < s.len() ==> s[i] != '\0',
    ensures ansi_scan(flat_l(s, ansi_piece(flag), base) + seq!['\'']) == Some((s, Seq::<char>::empty()))
    decreases s.len()
{
    let f = ansi_piece(flag);
    let w = flat_l(s, f, base) + seq!['\''];
    if s.len() == 0 {
        assert(w =~= seq!['\'']);
        assert(w.skip(1) =~= Seq::<char>::empty());
    } else {
        assert forall|i: int| 0 <= i < s.skip(1).len() implies s.skip(1)[i] != '\0' by { assert(s.skip(1)[i] == s[i + 1]); }
        lemma_ansi_scan(s.skip(1), flag, base + 1);
        let rest = flat_l(s.skip(1), f, base + 1) + seq!['\''];
        let c = s[0];
        let p = f(base, c);
        assert(w =~= p + rest);
        assert(seq![c] + s.skip(1) =~= s);
        if c == '\x07' || c == '\x08' || c == '\x1b' || c == '\x0c' || c == '\n' || c == '\r' || c == '\t' || c == '\x0b' || c == '\\' || c == '\'' {
            assert(p.len() == 2 && p[0] == '\\');
            assert(w[0] == '\\' && w[1] == p[1]);
            assert(ansi_named(p[1]) == Some(c));
            assert(w.skip(2) =~= rest);
        } else if flag(c) {
            let v = (c as u8) as int;
            assert((c as u32) < 0x80 && c != '\0');
            assert(0 < (c as u32));
            assert(v == c as u32);
            lemma_oct3(v);
            assert(p =~= oct3(v));
            assert(w.skip(1).len() >= 3);
            assert(w.skip(1)[0] == p[1] && w.skip(1)[1] == p[2] && w.skip(1)[2] == p[3]);
            assert(oct3(v).skip(1)[0] == p[1] && oct3(v).skip(1)[1] == p[2] && oct3(v).skip(1)[2] == p[3]);
            assert(w[0] == '\\' && w[1] == p[1] && is_oct(w[1]));
            assert(ansi_named(w[1]) is None);
            assert(oct_len(w.skip(1)) == 3);
            assert(oct_value(w.skip(1), 3) == v);
            assert(w.skip(4) =~= rest);
            assert((v as char) == c);
        } else {
            assert(p =~= seq![c]);
            assert(w[0] == c);
            assert(w.skip(1) =~= rest);
        }
    }
}
pub proof fn lemma_ansi_word(s: Seq<char>, flag: spec_fn(char) -> bool)
    requires ansi_flag_ok(flag), forall|i: int| 0 <= i < s.len() ==> s[i] != '\0',
    ensures reads_as(seq!['$', '\''] + flat_r(s, ansi_piece(flag)) + seq!['\''], s)
{
    lemma_flat_lr(s, ansi_piece(flag), 0);
    lemma_ansi_scan(s, flag, 0);
    let w = seq!['$', '\''] + flat_r(s, ansi_piece(flag)) + seq!['\''];
    assert(w.skip(2) =~= flat_l(s, ansi_piece(flag), 0) + seq!['\'']);
    assert(s + Seq::<char>::empty() =~= s);
    assert(w[0] == '$' && w[1] == '\'');
    assert(read_unq(Seq::<char>::empty(), false) == Some(Seq::<char>::empty()));
}
// ---- single quotes: the value is cut at every ' ; piece i is (i > 0 ? \' : nothing) followed by ('part' unless the part is empty)
pub open spec fn split_char(s: Seq<char>, sep: char) -> Seq<Seq<char>> decreases s.len() {
    if s.len() == 0 { seq![Seq::<char>::empty()] }
    else if s.last() == sep { split_char(s.drop_last(), sep).push(Seq::empty()) }
    else { let p = split_char(s.drop_last(), sep); p.update(p.len() - 1, p.last().push(s.last())) }
}
pub open spec fn sq_piece() -> spec_fn(int, Seq<char>) -> Seq<char> {
    |i: int, part: Seq<char>| (if i > 0 { seq!['\\', '\''] } else { Seq::<char>::empty() }) + (if part.len() > 0 { seq!['\''] + part + seq!['\''] } else { Seq::<char>::empty() })
}
pub open spec fn sq_val() -> spec_fn(int, Seq<char>) -> Seq<char> {
    |i: int, part: Seq<char>| (if i > 0 { seq!['\''] } else { Seq::<char>::empty() }) + part
}
pub open spec fn no_sq(parts: Seq<Seq<char>>) -> bool { forall|i: int, j: int| 0 <= i < parts.len() && 0 <= j < parts[i].len() ==> parts[i][j] != '\'' }
pub proof fn lemma_split(s: Seq<char>)
    ensures ({ let p = split_char(s, '\''); p.len() >= 1 && no_sq(p) && flat_rb(p, sq_val(), 0) =~= s }),
    decreases s.len()
{
    let p = split_char(s, '\'');
    if s.len() == 0 {
        assert(p.drop_last().len() == 0);
        assert(flat_rb(p.drop_last(), sq_val(), 0) =~= Seq::<char>::empty());
    } else {
        lemma_split(s.drop_last());
        let q = split_char(s.drop_last(), '\'');
        if s.last() == '\'' {
            assert(p.drop_last() =~= q);
            assert(s =~= s.drop_last() + seq!['\'']);
        } else {
            assert(p.drop_last() =~= q.drop_last());
            assert(p.last() =~= q.last().push(s.last()));
            assert(s =~= s.drop_last() + seq![s.last()]);
            assert(flat_rb(q, sq_val(), 0) =~= flat_rb(q.drop_last(), sq_val(), 0) + sq_val()(q.len() - 1, q.last()));
            assert forall|i: int, j: int| 0 <= i < p.len() && 0 <= j < p[i].len() implies p[i][j] != '\'' by {
                if i < p.len() - 1 { assert(p[i] == q[i]); } else { if j < q.last().len() { assert(p[i][j] == q.last()[j]); } }
            }
        }
    }
}
pub proof fn lemma_sq_scan(part: Seq<char>, tail: Seq<char>)
    requires forall|j: int| 0 <= j < part.len() ==> part[j] != '\'',
    ensures sq_scan(part + seq!['\''] + tail) == Some((part, tail))
    decreases part.len()
{
    let w = part + seq!['\''] + tail;
    if part.len() == 0 {
        assert(w[0] == '\'');
        assert(w.skip(1) =~= tail);
    } else {
        lemma_sq_scan(part.skip(1), tail);
        assert(w[0] == part[0]);
        assert(w.skip(1) =~= part.skip(1) + seq!['\''] + tail);
        assert(seq![part[0]] + part.skip(1) =~= part);
    }
}
pub proof fn lemma_sq_read(parts: Seq<Seq<char>>, base: int, at: bool)
    requires no_sq(parts), base >= 0,
    ensures read_unq(flat_l(parts, sq_piece(), base), at) == Some(flat_l(parts, sq_val(), base))
    decreases parts.len()
{
    if parts.len() > 0 {
        let rest = flat_l(parts.skip(1), sq_piece(), base + 1);
        let restv = flat_l(parts.skip(1), sq_val(), base + 1);
        assert forall|i: int, j: int| 0 <= i < parts.skip(1).len() && 0 <= j < parts.skip(1)[i].len() implies parts.skip(1)[i][j] != '\'' by { assert(parts.skip(1)[i] == parts[i + 1]); }
        lemma_sq_read(parts.skip(1), base + 1, false);
        lemma_sq_read(parts.skip(1), base + 1, at);
        let part = parts[0];
        let w = flat_l(parts, sq_piece(), base);
        assert(w =~= sq_piece()(base, part) + rest);
        // after the optional \' : the quoted part (if any), then the rest
        let w1 = (if part.len() > 0 { seq!['\''] + part + seq!['\''] } else { Seq::<char>::empty() }) + rest;
        assert(read_unq(w1, false) == Some(part + restv) && (base == 0 ==> read_unq(w1, at) == Some(part + restv))) by {
            if part.len() > 0 {
                assert(w1 =~= seq!['\''] + (part + seq!['\''] + rest));
                assert(w1[0] == '\'');
                assert(w1.skip(1) =~= part + seq!['\''] + rest);
                assert forall|j: int| 0 <= j < part.len() implies part[j] != '\'' by { assert(parts[0][j] != '\''); }
                lemma_sq_scan(part, rest);
            } else {
                assert(w1 =~= rest);
                assert(part + restv =~= restv);
            }
        }
        if base > 0 {
            assert(w =~= seq!['\\', '\''] + w1);
            assert(w[0] == '\\' && w[1] == '\'');
            assert(w.skip(2) =~= w1);
            assert(flat_l(parts, sq_val(), base) =~= seq!['\''] + (part + restv));
        } else {
            assert(w =~= w1);
            assert(flat_l(parts, sq_val(), base) =~= part + restv);
        }
    }
}
pub proof fn lemma_sq_word(s: Seq<char>)
    requires s.len() > 0,
    ensures reads_as(flat_r(split_char(s, '\''), sq_piece()), s)
{
    let p = split_char(s, '\'');
    lemma_split(s);
    lemma_flat_lr(p, sq_piece(), 0);
    lemma_flat_lr(p, sq_val(), 0);
    lemma_sq_read(p, 0, true);
    // non-empty output: some part is non-empty or there are at least two parts
    lemma_sq_nonempty(p);
}
pub proof fn lemma_sq_nonempty(p: Seq<Seq<char>>)
    requires p.len() >= 1, flat_rb(p, sq_val(), 0).len() > 0,
    ensures flat_rb(p, sq_piece(), 0).len() > 0
    decreases p.len()
{
    if p.len() == 1 {
        assert(p.drop_last().len() == 0);
        assert(flat_rb(p.drop_last(), sq_val(), 0) =~= Seq::<char>::empty());
        assert(flat_rb(p.drop_last(), sq_piece(), 0) =~= Seq::<char>::empty());
    } else {
        assert(sq_piece()(p.len() - 1, p.last()).len() >= 2);
    }
}

// ---- std specs (ASSUMED)
pub assume_specification [std::string::String::with_capacity] (n: usize) -> (r: std::string::String)
    ensures r@ == Seq::<char>::empty();
pub assume_specification [char::is_ascii_control] (c: &char) -> (r: bool)
    ensures r == char_is_ascii_control_spec(*c);
pub open spec fn char_is_ascii_control_spec(c: char) -> bool { (c as u32) <= 0x1f || (c as u32) == 0x7f }
// ---- R14 stubs
#[verifier::external_body]
pub fn str_any<F: Fn(char) -> bool>(s: &str, f: F) -> (r: bool)
    requires forall|c: char| f.requires((c,)),
    ensures r ==> exists|i: int| 0 <= i < s@.len() && f.ensures((#[trigger] s@[i],), true),
        !r ==> forall|i: int| 0 <= i < s@.len() ==> f.ensures((#[trigger] s@[i],), false),
{ unimplemented!() }
#[verifier::external_body]
pub fn str_first_is<F: Fn(char) -> bool>(s: &str, f: F) -> (r: bool)
    requires forall|c: char| f.requires((c,)),
    ensures r ==> s@.len() > 0 && f.ensures((s@[0],), true),
        !r ==> s@.len() == 0 || f.ensures((s@[0],), false),
{ unimplemented!() }
#[verifier::external_body]
pub fn str_split_char<'a>(s: &'a str, sep: char) -> (r: Vec<&'a str>)
    ensures r@.len() == split_char(s@, sep).len(), forall|i: int| 0 <= i < r@.len() ==> (#[trigger] r@[i])@ == split_char(s@, sep)[i],
{ unimplemented!() }
#[verifier::external_body]
pub fn vx_fmt_backslash_octal3(b: u8) -> (r: String) ensures r@ == oct3(b as int) { unimplemented!() }
pub trait VxOwned { spec fn vx_view(&self) -> Seq<char>; fn vx_owned(self) -> (r: String) ensures r@ == self.vx_view(); }
impl VxOwned for String { open spec fn vx_view(&self) -> Seq<char> { self@ } #[verifier::external_body] fn vx_owned(self) -> (r: String) { self } }
impl<'a> VxOwned for &'a str { open spec fn vx_view(&self) -> Seq<char> { self@ } #[verifier::external_body] fn vx_owned(self) -> (r: String) { self.to_string() } }


pub open spec fn char_is_control_spec(c: char) -> bool { (c as u32) <= 0x1f || (0x7f <= (c as u32) <= 0x9f) }   // Unicode general category Cc
pub assume_specification [char::is_control] (c: char) -> (r: bool)
    ensures r == char_is_control_spec(c);
pub open spec fn esc_fn() -> spec_fn(int, char) -> bool { |i: int, c: char| needs_escaping__twin(c) || (i == 0 && needs_escaping_at_start__twin(c)) }
pub open spec fn flag_fn() -> spec_fn(char) -> bool { |c: char| needs_ansi_c_quoting__twin(c) }
pub open spec fn no_nul(s: Seq<char>) -> bool { forall|i: int| 0 <= i < s.len() ==> s[i] != '\0' }

pub proof fn lemma_nothing_escaped(s: Seq<char>)
    requires forall|i: int| 0 <= i < s.len() ==> !needs_escaping__twin(#[trigger] s[i]), s.len() == 0 || !needs_escaping_at_start__twin(s[0]),
    ensures flat_r(s, bs_piece(esc_fn())) =~= s
{
    lemma_flat_lr(s, bs_piece(esc_fn()), 0);
    lemma_flat_id2(s, 0);
}

pub proof fn lemma_flat_id2(s: Seq<char>, base: int)
    requires forall|i: int| 0 <= i < s.len() ==> !esc_fn()(base + i, #[trigger] s[i]),
    ensures flat_l(s, bs_piece(esc_fn()), base) =~= s
    decreases s.len()
{
    if s.len() > 0 {
        assert forall|i: int| 0 <= i < s.skip(1).len() implies !esc_fn()(base + 1 + i, #[trigger] s.skip(1)[i]) by { assert(s.skip(1)[i] == s[i + 1]); }
        lemma_flat_id2(s.skip(1), base + 1); assert(seq![s[0]] + s.skip(1) =~= s); assert(!esc_fn()(base + 0, s[0])); }
}

pub proof fn lemma_empty_word() ensures reads_as(seq!['\'', '\''], Seq::<char>::empty())
{
    let w = seq!['\'', '\''];
    assert(w.skip(1) =~= seq!['\'']);
    assert(w.skip(1).skip(1) =~= Seq::<char>::empty());
    assert(sq_scan(w.skip(1)) == Some((Seq::<char>::empty(), Seq::<char>::empty())));
    assert(read_unq(Seq::<char>::empty(), false) == Some(Seq::<char>::empty()));
    assert(Seq::<char>::empty() + Seq::<char>::empty() =~= Seq::<char>::empty());
}

pub proof fn lemma_predicates_cover(s: Seq<char>)
    ensures
        //@ spec:lemma_predicates_cover:ensures#0 | C13 what-the-escaping-predicates-leave-alone-is-literal
        (forall|i: int| 0 <= i < s.len() ==> !needs_ansi_c_quoting__twin(#[trigger] s[i])) ==> bs_ok(s, esc_fn(), 0),
        //@ spec:lemma_predicates_cover:ensures#1 | C13 unquoted-text-has-no-special-character
        (forall|i: int| 0 <= i < s.len() ==> !needs_ansi_c_quoting__twin(#[trigger] s[i]) && !needs_escaping__twin(s[i])) && (s.len() == 0 || !needs_escaping_at_start__twin(s[0]))
            ==> bs_ok(s, |i: int, c: char| false, 0),
        //@ spec:lemma_predicates_cover:ensures#2 | C13 octal-escapes-are-written-only-for-characters-below-0x80
        ansi_flag_ok(flag_fn()),
{
}

pub proof fn lemma_bs_word(s: Seq<char>)
    requires s.len() > 0, bs_ok(s, esc_fn(), 0),
    ensures reads_as(flat_r(s, bs_piece(esc_fn())), s)
{
    lemma_flat_lr(s, bs_piece(esc_fn()), 0);
    lemma_bs_read(s, esc_fn(), 0);
    assert(flat_l(s, bs_piece(esc_fn()), 0).len() > 0) by { assert(bs_piece(esc_fn())(0, s[0]).len() > 0); }
}

// a Rust string has at most isize::MAX bytes, hence at most that many chars (ASSUMED; needed for the R12 counter of `enumerate`)
pub axiom fn axiom_str_chars_fit_usize(s: &str) ensures s@.len() <= isize::MAX;
// R14: `s.bytes().map(char::from)`: every UTF-8 byte of the text read as a character of its own (Latin-1); equal to the characters of
// the text only for ASCII text — left abstract
pub uninterp spec fn bytes_as_chars(s: Seq<char>) -> Seq<char>;
#[verifier::external_body]
pub fn str_bytes_as_chars(s: &str) -> (r: Vec<char>) ensures r@ == bytes_as_chars(s@) { unimplemented!() }
