pub assume_specification [std::string::String::with_capacity] (n: usize) -> (r: std::string::String)
    ensures r@ == Seq::<char>::empty();
pub assume_specification [char::is_ascii_control] (c: &char) -> (r: bool)
    ensures r == ((*c as u32) <= 0x1f || (*c as u32) == 0x7f);

// ---------------- spec: what the code's predicate is (mirror, checked by the ensures above)
pub open spec fn needs_escaping_spec(c: char) -> bool {
    c == '(' || c == ')' || c == '[' || c == ']' || c == '{' || c == '}' || c == '$' || c == '*' || c == '?' || c == '|' || c == '&' || c == ';'
    || c == '<' || c == '>' || c == '`' || c == '\\' || c == '"' || c == '!' || c == '^' || c == ',' || c == ' ' || c == '\''
}
// ---------------- spec: POSIX XCU 2.2 / 2.3 / 2.6 + bash: characters that are NOT read back literally when they
// appear unquoted in a word (anywhere, or at its start for '#' and '~')
pub open spec fn unquoted_special(c: char) -> bool {
    // 2.2: | & ; < > ( ) $ ` \ " ' <space> <tab> <newline>
    c == '|' || c == '&' || c == ';' || c == '<' || c == '>' || c == '(' || c == ')' || c == '$' || c == '`' || c == '\\' || c == '"' || c == '\'' || c == ' ' || c == '\t' || c == '\n'
    // 2.2 "may need to be quoted": * ? [ # ~  (pathname expansion, comment, tilde); bash: { } , ! ^ (brace and history expansion)
    || c == '*' || c == '?' || c == '[' || c == '#' || c == '~' || c == '{' || c == '}' || c == ',' || c == '!' || c == '^'
}
// characters that are special only as the FIRST character of a word: '#' starts a comment (2.3 rule 9), '~' a tilde-prefix (2.6.1)
pub open spec fn special_at_start_only(c: char) -> bool { c == '#' || c == '~' }
pub open spec fn needs_escaping_at_start_spec(c: char) -> bool { c == '#' || c == '~' }
pub open spec fn ansi_c_spec(c: char) -> bool { (c as u32) <= 0x1f || (c as u32) == 0x7f }

// C13 lemma 1 (all chars): every character the reader treats specially is flagged by the predicates `quote` consults —
// anywhere in the word by needs_escaping / needs_ansi_c_quoting, and additionally at the start by needs_escaping_at_start
pub proof fn lemma_special_chars_flagged(c: char)
    requires unquoted_special(c),
    ensures
        !special_at_start_only(c) ==> needs_escaping_spec(c) || ansi_c_spec(c),
        needs_escaping_spec(c) || ansi_c_spec(c) || needs_escaping_at_start_spec(c),
{}

// ---------------- spec: double-quote writer and reader
pub open spec fn dq_special(c: char) -> bool { c == '$' || c == '`' || c == '"' || c == '\\' }
pub open spec fn dq_char(c: char) -> Seq<char> { if dq_special(c) { seq!['\\', c] } else { seq![c] } }
pub open spec fn dq_body(s: Seq<char>) -> Seq<char> decreases s.len() {
    if s.len() == 0 { Seq::empty() } else { dq_body(s.drop_last()) + dq_char(s.last()) }
}
pub open spec fn dq_body_l(s: Seq<char>) -> Seq<char> decreases s.len() {
    if s.len() == 0 { Seq::empty() } else { dq_char(s[0]) + dq_body_l(s.skip(1)) }
}
// POSIX 2.2.3: inside double quotes `\` keeps its meaning only before $ ` " \ <newline>; an unescaped $ ` " is not literal
pub open spec fn dq_read(w: Seq<char>) -> Option<Seq<char>> decreases w.len() {
    if w.len() == 0 { Some(Seq::empty()) }
    else if w[0] == '\\' {
        if w.len() >= 2 && (dq_special(w[1]) ) { match dq_read(w.skip(2)) { Some(r) => Some(seq![w[1]] + r), None => None } }
        else if w.len() >= 2 && w[1] == '\n' { dq_read(w.skip(2)) }
        else { match dq_read(w.skip(1)) { Some(r) => Some(seq!['\\'] + r), None => None } }
    }
    else if w[0] == '"' || w[0] == '$' || w[0] == '`' { None }
    else { match dq_read(w.skip(1)) { Some(r) => Some(seq![w[0]] + r), None => None } }
}

proof fn lemma_dq_body_concat(a: Seq<char>, b: Seq<char>)
    ensures dq_body(a + b) =~= dq_body(a) + dq_body(b)
    decreases b.len()
{
    if b.len() == 0 { assert(a + b =~= a); }
    else {
        assert((a + b).drop_last() =~= a + b.drop_last());
        lemma_dq_body_concat(a, b.drop_last());
    }
}
proof fn lemma_dq_body_lr(s: Seq<char>) ensures dq_body(s) =~= dq_body_l(s) decreases s.len()
{
    if s.len() > 0 {
        lemma_dq_body_lr(s.skip(1));
        assert(s =~= seq![s[0]] + s.skip(1));
        lemma_dq_body_concat(seq![s[0]], s.skip(1));
        assert(seq![s[0]].drop_last() =~= Seq::<char>::empty());
        assert(dq_body(Seq::<char>::empty()) =~= Seq::<char>::empty());
        assert(seq![s[0]].last() == s[0]);
        assert(dq_body(seq![s[0]]) =~= dq_body(seq![s[0]].drop_last()) + dq_char(s[0]));
        assert(dq_body(seq![s[0]]) =~= dq_char(s[0]));
    }
}
// C13 lemma 2: the reader maps the writer's output back to the value, for every string
pub proof fn lemma_dq_roundtrip(v: Seq<char>) ensures dq_read(dq_body(v)) == Some(v) decreases v.len()
{
    lemma_dq_body_lr(v);
    lemma_dq_roundtrip_l(v);
}
proof fn lemma_dq_roundtrip_l(v: Seq<char>) ensures dq_read(dq_body_l(v)) == Some(v) decreases v.len()
{
    if v.len() > 0 {
        lemma_dq_roundtrip_l(v.skip(1));
        let w = dq_body_l(v);
        let rest = dq_body_l(v.skip(1));
        if dq_special(v[0]) {
            assert(w =~= seq!['\\', v[0]] + rest);
            assert(w.skip(2) =~= rest);
        } else {
            assert(w =~= seq![v[0]] + rest);
            assert(w.skip(1) =~= rest);
        }
        assert(seq![v[0]] + v.skip(1) =~= v);
    }
}

