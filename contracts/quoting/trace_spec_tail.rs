}
pub trait VxOwned { spec fn vx_view(&self) -> Seq<char>; fn vx_owned(self) -> (r: String) ensures r@ == self.vx_view(); }
impl VxOwned for String { open spec fn vx_view(&self) -> Seq<char> { self@ } #[verifier::external_body] fn vx_owned(self) -> (r: String) { self } }
#[verifier::external_body]
pub fn vx_push_string(s: &mut String, t: &String) ensures final(s)@ == old(s)@ + t@ { unimplemented!() }           // s.push_str(&t)
#[verifier::external_body]
pub fn vx_push_char(s: &mut String, c: char) ensures final(s)@ == old(s)@.push(c) { unimplemented!() }              // s.push(c)
#[verifier::external_body]
pub fn vx_push_lit(s: &mut String, t: &str) ensures final(s)@ == old(s)@ + t@ { unimplemented!() }                   // s.push_str("..")
pub open spec fn elem_text(e: (Option<ast::Word>, ast::Word)) -> Seq<char> {
    (match e.0 { Some(k) => seq!['['] + escape::qtext(k.text()) + seq![']', '='], None => Seq::<char>::empty() }) + escape::qtext(e.1.text())
}
pub open spec fn elems_text(es: Seq<(Option<ast::Word>, ast::Word)>) -> Seq<char> decreases es.len() {
    if es.len() == 0 { Seq::empty() } else { elems_text(es.drop_last()) + (if es.len() > 1 { seq![' '] } else { Seq::<char>::empty() }) + elem_text(es.last()) }
}
pub open spec fn value_text(v: ast::AssignmentValue) -> Seq<char> {
    match v {
        ast::AssignmentValue::Scalar(w) => escape::qtext(w.text()),
        ast::AssignmentValue::Array(es) => seq!['('] + elems_text(es@) + seq![')'],
    }
}
pub open spec fn arg_text(a: CommandArg) -> Seq<char> {
    match a {
        CommandArg::String(s) => escape::qtext(s@),
        CommandArg::Assignment(x) => x.name.text() + (if x.append { seq!['+', '='] } else { seq!['='] }) + value_text(x.value),
    }
}
pub axiom fn axiom_vec_len_fits<T>(v: &Vec<T>) ensures v@.len() <= usize::MAX;     // a Vec holds at most usize::MAX elements
// Display of a whole assignment value (`(a b c)` for an array): available as a stub so that code which formats the literal first and
// quotes it afterwards is verified against the contract (and fails it) instead of stopping the run
impl ast::AssignmentValue {
    pub uninterp spec fn display_text(&self) -> Seq<char>;
    #[verifier::external_body] pub fn vx_text(&self) -> (r: String) ensures r@ == self.display_text() { unimplemented!() }
}
