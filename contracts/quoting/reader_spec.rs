// ================= C13 quoting: reader of ONE shell word (POSIX XCU 2.2 Quoting, 2.3 Token Recognition, 2.6.1 Tilde; bash manual
// 3.1.2.4 ANSI-C Quoting), written from those texts — NOT from brush's or bash's parser.  `None` = the text is not read back as
// exactly one literal word.  History expansion (`!`) is off, as it is for `eval` in a script.
pub open spec fn unquoted_special(c: char) -> bool {
    // 2.2: | & ; < > ( ) $ ` \ " ' <space> <tab> <newline>
    c == '|' || c == '&' || c == ';' || c == '<' || c == '>' || c == '(' || c == ')' || c == '$' || c == '`' || c == '\\' || c == '"' || c == '\'' || c == ' ' || c == '\t' || c == '\n'
    // 2.2 "may need to be quoted": * ? [ # ~  (pathname expansion, comment, tilde); bash: { } , ! ^ (brace and history expansion)
    || c == '*' || c == '?' || c == '[' || c == '#' || c == '~' || c == '{' || c == '}' || c == ',' || c == '!' || c == '^'
}
// special only as the FIRST character of a word: '#' starts a comment (2.3 rule 9), '~' a tilde-prefix (2.6.1)
pub open spec fn special_at_start_only(c: char) -> bool { c == '#' || c == '~' }
pub open spec fn cons(c: char, r: Option<Seq<char>>) -> Option<Seq<char>> { match r { Some(v) => Some(seq![c] + v), None => None } }
pub open spec fn cat(a: Seq<char>, r: Option<Seq<char>>) -> Option<Seq<char>> { match r { Some(v) => Some(a + v), None => None } }
pub open spec fn cons2(c: char, r: Option<(Seq<char>, Seq<char>)>) -> Option<(Seq<char>, Seq<char>)> { match r { Some((v, rest)) => Some((seq![c] + v, rest)), None => None } }
// 2.2.2 single quotes: everything up to the next ' is literal
pub open spec fn sq_scan(w: Seq<char>) -> Option<(Seq<char>, Seq<char>)> decreases w.len() {
    if w.len() == 0 { None } else if w[0] == '\'' { Some((Seq::empty(), w.skip(1))) } else { cons2(w[0], sq_scan(w.skip(1))) }
}
// 2.2.3 double quotes: \ keeps its meaning only before $ ` " \ <newline>; an unescaped $ or ` is not literal
pub open spec fn dq_special(c: char) -> bool { c == '$' || c == '`' || c == '"' || c == '\\' }
pub open spec fn dq_scan(w: Seq<char>) -> Option<(Seq<char>, Seq<char>)> decreases w.len() {
    if w.len() == 0 { None }
    else if w[0] == '"' { Some((Seq::empty(), w.skip(1))) }
    else if w[0] == '\\' {
        if w.len() >= 2 && dq_special(w[1]) { cons2(w[1], dq_scan(w.skip(2))) }
        else if w.len() >= 2 && w[1] == '\n' { dq_scan(w.skip(2)) }
        else { cons2('\\', dq_scan(w.skip(1))) }
    }
    else if w[0] == '$' || w[0] == '`' { None }
    else { cons2(w[0], dq_scan(w.skip(1))) }
}
// bash 3.1.2.4 $'...': named escapes, \nnn = one to three octal digits; \xHH \uHHHH \UHHHHHHHH \cx are not modelled (None).
// An octal value of 0 ends the string (NUL) and one above 0x7f is a raw byte, not a character: neither reads back as a char.
pub open spec fn is_oct(c: char) -> bool { '0' <= c && c <= '7' }
pub open spec fn oct_val(c: char) -> int { c as int - '0' as int }
pub open spec fn ansi_named(e: char) -> Option<char> {
    if e == 'a' { Some('\x07') } else if e == 'b' { Some('\x08') } else if e == 'e' || e == 'E' { Some('\x1b') } else if e == 'f' { Some('\x0c') }
    else if e == 'n' { Some('\n') } else if e == 'r' { Some('\r') } else if e == 't' { Some('\t') } else if e == 'v' { Some('\x0b') }
    else if e == '\\' { Some('\\') } else if e == '\'' { Some('\'') } else if e == '"' { Some('"') } else if e == '?' { Some('?') } else { None }
}
pub open spec fn oct_len(w: Seq<char>) -> int {    // how many of the first (at most 3) chars are octal digits
    if w.len() >= 1 && is_oct(w[0]) { if w.len() >= 2 && is_oct(w[1]) { if w.len() >= 3 && is_oct(w[2]) { 3 } else { 2 } } else { 1 } } else { 0 }
}
pub open spec fn oct_value(w: Seq<char>, n: int) -> int {
    if n == 1 { oct_val(w[0]) } else if n == 2 { oct_val(w[0]) * 8 + oct_val(w[1]) } else { oct_val(w[0]) * 64 + oct_val(w[1]) * 8 + oct_val(w[2]) }
}
pub open spec fn ansi_scan(w: Seq<char>) -> Option<(Seq<char>, Seq<char>)> decreases w.len() {
    if w.len() == 0 { None }
    else if w[0] == '\'' { Some((Seq::empty(), w.skip(1))) }
    else if w[0] == '\\' {
        if w.len() < 2 { None }
        else if ansi_named(w[1]) is Some { cons2(ansi_named(w[1])->Some_0, ansi_scan(w.skip(2))) }
        else if is_oct(w[1]) {
            let n = oct_len(w.skip(1));
            let v = oct_value(w.skip(1), n);
            if 0 < v && v < 0x80 { cons2(v as char, ansi_scan(w.skip(1 + n))) } else { None }
        }
        else { None }
    }
    else { cons2(w[0], ansi_scan(w.skip(1))) }
}
// 2.2/2.3: one word, read left to right
pub open spec fn read_unq(w: Seq<char>, at_start: bool) -> Option<Seq<char>> decreases w.len() {
    if w.len() == 0 { Some(Seq::empty()) }
    else if w[0] == '\\' {
        if w.len() < 2 { None }                                     // a trailing backslash does not form a complete word
        else if w[1] == '\n' { read_unq(w.skip(2), at_start) }       // 2.2.1 line continuation: both characters are removed
        else { cons(w[1], read_unq(w.skip(2), false)) }
    }
    else if w[0] == '\'' {
        match sq_scan(w.skip(1)) { Some((v, rest)) => if rest.len() < w.len() { cat(v, read_unq(rest, false)) } else { None }, None => None }
    }
    else if w[0] == '"' {
        match dq_scan(w.skip(1)) { Some((v, rest)) => if rest.len() < w.len() { cat(v, read_unq(rest, false)) } else { None }, None => None }
    }
    else if w[0] == '$' && w.len() >= 2 && w[1] == '\'' {
        match ansi_scan(w.skip(2)) { Some((v, rest)) => if rest.len() < w.len() { cat(v, read_unq(rest, false)) } else { None }, None => None }
    }
    else if unquoted_special(w[0]) && (!special_at_start_only(w[0]) || at_start) { None }
    else { cons(w[0], read_unq(w.skip(1), false)) }
}
// the text `w`, given to the shell as (part of) a command line, is exactly one word whose value is v
pub open spec fn reads_as(w: Seq<char>, v: Seq<char>) -> bool { w.len() > 0 && read_unq(w, true) == Some(v) }

