// ---- C13 for the listing builtins that quote by hand: `alias` (brush-builtins/src/alias.rs single_quote) and `trap -p`
//  (brush-builtins/src/trap.rs display_handlers_for).  Both print '...'; the text between the quotes must be the value with every
//  single quote written as '\'' for the line to re-read as the value.
pub open spec fn replace_char(s: Seq<char>, c: char, w: Seq<char>) -> Seq<char> decreases s.len() {
    if s.len() == 0 { Seq::empty() } else { replace_char(s.drop_last(), c, w) + (if s.last() == c { w } else { seq![s.last()] }) }
}
pub open spec fn replace_char_l(s: Seq<char>, c: char, w: Seq<char>) -> Seq<char> decreases s.len() {
    if s.len() == 0 { Seq::empty() } else { (if s[0] == c { w } else { seq![s[0]] }) + replace_char_l(s.skip(1), c, w) }
}
pub open spec fn sq_esc() -> Seq<char> { seq!['\'', '\\', '\'', '\''] }
pub proof fn lemma_replace_lr(s: Seq<char>, c: char, w: Seq<char>) ensures replace_char(s, c, w) =~= replace_char_l(s, c, w) decreases s.len()
{
    if s.len() == 1 {
        assert(s.drop_last() =~= Seq::<char>::empty()); assert(s.skip(1) =~= Seq::<char>::empty());
        assert(replace_char(s.drop_last(), c, w) =~= Seq::<char>::empty()); assert(replace_char_l(s.skip(1), c, w) =~= Seq::<char>::empty());
        assert(s.last() == s[0]);
    } else if s.len() > 1 {
        lemma_replace_lr(s.drop_last(), c, w); lemma_replace_lr(s.skip(1), c, w); lemma_replace_lr(s.drop_last().skip(1), c, w);
        assert(s.drop_last().skip(1) =~= s.skip(1).drop_last());
        assert(s.drop_last()[0] == s[0]); assert(s.skip(1).last() == s.last());
        assert(replace_char(s.skip(1), c, w) =~= replace_char(s.skip(1).drop_last(), c, w) + (if s.last() == c { w } else { seq![s.last()] }));
    }
}
// '<value with every ' written as '\''>' reads back as the value (any `at_start`)
pub proof fn lemma_sq_replaced_read(s: Seq<char>, at: bool)
    ensures read_unq(seq!['\''] + replace_char_l(s, '\'', sq_esc()) + seq!['\''], at) == Some(s)
    decreases s.len()
{
    let body = replace_char_l(s, '\'', sq_esc());
    let w = seq!['\''] + body + seq!['\''];
    assert(w[0] == '\'');
    if s.len() == 0 {
        assert(w.skip(1) =~= seq!['\'']);
        assert(w.skip(1).skip(1) =~= Seq::<char>::empty());
        assert(sq_scan(w.skip(1)) == Some((Seq::<char>::empty(), Seq::<char>::empty())));
        assert(read_unq(Seq::<char>::empty(), false) == Some(Seq::<char>::empty()));
        assert(Seq::<char>::empty() + Seq::<char>::empty() =~= s);
    } else {
        let rest_body = replace_char_l(s.skip(1), '\'', sq_esc());
        let w2 = seq!['\''] + rest_body + seq!['\''];
        lemma_sq_replaced_read(s.skip(1), false);
        assert(seq![s[0]] + s.skip(1) =~= s);
        if s[0] == '\'' {
            // ' closes at once; then \' ; then the rest re-opens with '
            assert(body =~= sq_esc() + rest_body);
            assert(w.skip(1) =~= seq!['\'', '\\', '\'', '\''] + rest_body + seq!['\'']);
            assert(w.skip(1)[0] == '\'');
            let r1 = w.skip(1).skip(1);
            assert(sq_scan(w.skip(1)) == Some((Seq::<char>::empty(), r1)));
            assert(r1 =~= seq!['\\', '\''] + w2);
            assert(r1[0] == '\\' && r1[1] == '\'');
            assert(r1.skip(2) =~= w2);
            assert(read_unq(r1, false) == cons('\'', read_unq(w2, false)));
            assert(Seq::<char>::empty() + (seq!['\''] + s.skip(1)) =~= s);
        } else {
            assert(body =~= seq![s[0]] + rest_body);
            let t = w.skip(1);
            assert(t =~= seq![s[0]] + (rest_body + seq!['\'']));
            assert(t[0] == s[0]);
            assert(t.skip(1) =~= rest_body + seq!['\'']);
            assert(w2.skip(1) =~= rest_body + seq!['\'']);
            assert(w2[0] == '\'');
            // from the induction hypothesis: scanning the rest succeeds
            let sc = sq_scan(w2.skip(1));
            assert(sc is Some);
            let (v, rest) = sc->Some_0;
            assert(sq_scan(t) == Some((seq![s[0]] + v, rest)));
            assert((seq![s[0]] + v) + read_unq(rest, false)->Some_0 =~= seq![s[0]] + (v + read_unq(rest, false)->Some_0));
        }
    }
}
pub proof fn lemma_sq_replaced_word(s: Seq<char>)
    ensures reads_as(seq!['\''] + replace_char(s, '\'', sq_esc()) + seq!['\''], s)
{
    lemma_replace_lr(s, '\'', sq_esc());
    lemma_sq_replaced_read(s, true);
}
pub proof fn lemma_replace_id(s: Seq<char>, c: char, w: Seq<char>)
    requires !s.contains(c),
    ensures replace_char(s, c, w) =~= s
    decreases s.len()
{
    if s.len() > 0 {
        assert forall|i: int| 0 <= i < s.drop_last().len() implies s.drop_last()[i] != c by { assert(s.contains(s[i])); }
        assert(!s.drop_last().contains(c));
        lemma_replace_id(s.drop_last(), c, w);
        assert(s.contains(s.last()));
        assert(s.drop_last().push(s.last()) =~= s);
    }
}
// R14/R8 stubs
#[verifier::external_body]
pub fn str_replace_char(s: &str, c: char, with: &str) -> (r: String) ensures r@ == replace_char(s@, c, with@) { unimplemented!() }
#[verifier::external_body]
pub fn vx_fmt_single_quoted(inner: &str) -> (r: String) ensures r@ == seq!['\''] + inner@ + seq!['\''] { unimplemented!() }
// trap -p
pub struct TrapHandler { pub command: String, pub rest: u8 }
#[verifier::external_body] pub struct TrapSignal { _p: u8 }
#[verifier::external_body] pub struct ExecutionContext { _p: u8 }
#[verifier::external_body] pub struct Error { _p: u8 }
#[verifier::external_body]
pub fn traps_get_handler<'a>(context: &'a ExecutionContext, signal: &TrapSignal) -> Option<&'a TrapHandler> { unimplemented!() }
// method form of str::replace(char, &str), so that chained calls keep their shape (R14)
pub trait VxReplaceChar { spec fn vx_chars(&self) -> Seq<char>; fn vx_replace_char(&self, c: char, with: &str) -> (r: String) ensures r@ == replace_char(self.vx_chars(), c, with@); }
impl<'a> VxReplaceChar for &'a str { open spec fn vx_chars(&self) -> Seq<char> { self@ } #[verifier::external_body] fn vx_replace_char(&self, c: char, with: &str) -> (r: String) { unimplemented!() } }
impl VxReplaceChar for String { open spec fn vx_chars(&self) -> Seq<char> { self@ } #[verifier::external_body] fn vx_replace_char(&self, c: char, with: &str) -> (r: String) { unimplemented!() } }
