// ---- prelude: the `set -x` text of one command argument (brush-core/src/commands.rs CommandArg::quote_for_tracing).
//  C13: the trace, given back to eval, recreates the values.  An argument that is a plain string is quoted as a whole; an argument that
//  is an assignment (`declare -a arr=(1 '2 3')`) is written  name op value  where a scalar value is quoted as a whole and an array
//  literal is written `(` elements separated by one blank `)`, each element `[key]=value` or `value` with key and value quoted ONE BY
//  ONE — quoting the whole literal would merge elements that contain blanks.
pub mod escape {
    use vstd::prelude::*;
    pub enum QuoteMode { BackslashEscape, SingleQuote, DoubleQuote }       // projection of escape.rs QuoteMode (variant checked)
    // the text quote_if_needed returns for a value: it reads back as the value (proved in unit U16 for every value without NUL)
    pub uninterp spec fn qtext(s: Seq<char>) -> Seq<char>;
    #[verifier::external_body]
    pub fn quote_if_needed(s: &str, mode: QuoteMode) -> (r: String) ensures r@ == qtext(s@) { unimplemented!() }
}
pub mod ast {
    use vstd::prelude::*;
    #[verifier::external_body] pub struct Word { _p: u8 }
    impl Word { pub uninterp spec fn text(&self) -> Seq<char>;
        #[verifier::external_body] pub fn vx_text(&self) -> (r: String) ensures r@ == self.text() { unimplemented!() } }       // Display / to_string
    #[verifier::external_body] pub struct AssignmentName { _p: u8 }
    impl AssignmentName { pub uninterp spec fn text(&self) -> Seq<char>;
        #[verifier::external_body] pub fn vx_text(&self) -> (r: String) ensures r@ == self.text() { unimplemented!() } }
    #[verifier::external_body] pub struct SourceSpan { _p: u8 }
