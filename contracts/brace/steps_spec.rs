// ---- prelude (C01, C05): one step of a descending brace range (braceexpansion.rs, the closures handed to std::iter::successors).
//  C01 "never ... hang": a sequence is finite because every step yields a strictly smaller element or ends the sequence.
//  C05 / bash manual, Brace Expansion: "{x..y[..incr]}" walks from x towards y by |incr| and stops before passing y.
// std: char::from_u32 — Some for a Unicode scalar value (not a surrogate, at most 0x10FFFF)
pub assume_specification [char::from_u32] (v: u32) -> (r: Option<char>)
    ensures (r is Some) == (v <= 0x10FFFF && !(0xD800 <= v <= 0xDFFF)), r is Some ==> r->Some_0 as u32 == v;
// R14: bool::then_some
pub fn vx_then_some<T>(c: bool, v: T) -> (r: Option<T>) ensures r == (if c { Some(v) } else { None::<T> }) { if c { Some(v) } else { None } }
