// ---- C10 / C04 here-documents and here-strings at the redirection site (POSIX XCU 2.7.4; bash manual "Here Strings"):
//  * the descriptor is the one written, else standard input (0);
//  * a here-string delivers the expanded word followed by exactly one newline — whatever the word ends with (C04: the value
//    arrives byte-exact);
//  * a here-document body is delivered as is, expanded iff the delimiter was unquoted (`requires_expansion`).
pub mod ast2 {
    use vstd::prelude::*;
    #[verifier::external_body]
    pub struct Word { _p: u8 }
    impl Word {
        pub uninterp spec fn flat(&self) -> Seq<char>;
        #[verifier::external_body]
        pub fn flatten(&self) -> (r: String) ensures r@ == self.flat() { unimplemented!() }
    }
    // projection of ast.rs IoHereDocument (fields checked)
    pub struct IoHereDocument { pub remove_tabs: bool, pub requires_expansion: bool, pub here_end: Word, pub doc: Word }
}
impl OpenFile { pub uninterp spec fn contents(&self) -> Seq<char>; }
#[verifier::external_body]
pub fn setup_open_file_with_contents(contents: &str) -> (r: Result<OpenFile, error::Error>)
    ensures r is Ok ==> r->Ok_0.contents() == contents@
{ unimplemented!() }
pub uninterp spec fn expand_word_spec(w: ast2::Word, sh: Shell) -> Seq<char>;
pub uninterp spec fn expand_heredoc_spec(w: ast2::Word, sh: Shell) -> Seq<char>;
pub mod expansion {
    use vstd::prelude::*;
    use super::*;
    #[verifier::external_body]
    pub fn basic_expand_word(shell: &mut Shell, params: &ExecutionParameters, word: &ast2::Word) -> (r: Result<String, error::Error>)
        ensures r is Ok ==> r->Ok_0@ == expand_word_spec(*word, *old(shell))
    { unimplemented!() }
    #[verifier::external_body]
    pub fn basic_expand_heredoc_word(shell: &mut Shell, params: &ExecutionParameters, word: &ast2::Word) -> (r: Result<String, error::Error>)
        ensures r is Ok ==> r->Ok_0@ == expand_heredoc_spec(*word, *old(shell))
    { unimplemented!() }
}
// ---- here-document bodies subject to expansion (POSIX XCU 2.7.4: "<backslash> in the here-document shall behave as the
//  <backslash> inside double-quotes"; 2.2.1: <backslash><newline> is a line continuation and is removed; bash removes it while
//  reading the body, before any expansion).  A newline after an ESCAPED backslash is an ordinary newline.
pub open spec fn remove_cont(s: Seq<char>) -> Seq<char> decreases s.len() {
    if s.len() == 0 { Seq::empty() }
    else if s[0] == '\\' {
        if s.len() == 1 { seq!['\\'] }
        else if s[1] == '\n' { remove_cont(s.skip(2)) }
        else { seq!['\\', s[1]] + remove_cont(s.skip(2)) }
    }
    else { seq![s[0]] + remove_cont(s.skip(1)) }
}
// what is still to come when the scan has consumed a prefix and `pending` says the last character was an unescaped backslash
pub open spec fn remove_cont_from(pending: bool, rest: Seq<char>) -> Seq<char> {
    if !pending { remove_cont(rest) }
    else if rest.len() == 0 { seq!['\\'] }
    else if rest[0] == '\n' { remove_cont(rest.skip(1)) }
    else { seq!['\\', rest[0]] + remove_cont(rest.skip(1)) }
}
pub assume_specification [std::string::String::with_capacity] (n: usize) -> (r: std::string::String)
    ensures r@ == Seq::<char>::empty();

// str::replace(&str, &str) (std: "replaces all matches of a pattern with another string", left to right, non-overlapping): available as
// a stub so that a body written with it is verified against the contract instead of stopping the run
pub open spec fn starts_with_seq(s: Seq<char>, p: Seq<char>) -> bool { p.len() <= s.len() && s.take(p.len() as int) == p }
pub open spec fn replace_all(s: Seq<char>, pat: Seq<char>, rep: Seq<char>) -> Seq<char> decreases s.len() {
    if s.len() == 0 || pat.len() == 0 { s }
    else if starts_with_seq(s, pat) { rep + replace_all(s.skip(pat.len() as int), pat, rep) }
    else { seq![s[0]] + replace_all(s.skip(1), pat, rep) }
}
#[verifier::external_body]
pub fn str_replace_str(s: &str, pat: &str, rep: &str) -> (r: String) ensures r@ == replace_all(s@, pat@, rep@) { unimplemented!() }
