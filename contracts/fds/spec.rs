// ---- C10: the descriptor table as a map fd -> Some(open file) | None (explicitly closed: hides the shell's descriptor,
//      which is what makes `N>&-` work) | absent (not specified at this layer; the enclosing layer decides).
pub type ShellFd = i32;
pub assume_specification<T, U, F: FnOnce(T) -> U> [std::option::Option::<T>::map_or] (o: Option<T>, d: U, f: F) -> (r: U)
    requires o is Some ==> f.requires((o->Some_0,)),
    ensures o is None ==> r == d,
            o is Some ==> f.ensures((o->Some_0,), r);

#[verifier::external_body]
pub struct OpenFile { _p: u8 }
pub mod error {
    use vstd::prelude::*;
    pub enum ErrorKind { TooManyOpenFiles }         // projection of error.rs ErrorKind (variant checked)
    #[verifier::external_body]
    pub struct Error { _p: u8 }
    impl vstd::std_specs::convert::FromSpecImpl<ErrorKind> for Error {
        open spec fn obeys_from_spec() -> bool { false }
        open spec fn from_spec(k: ErrorKind) -> Self { arbitrary() }
    }
    impl From<ErrorKind> for Error {
        #[verifier::external_body]
        fn from(k: ErrorKind) -> Self { unimplemented!() }
    }
}
