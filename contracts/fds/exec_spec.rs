// ---- C10: "Afterwards the shell's own descriptors are exactly as before (only `exec` redirections persist)".
//  `exec` without a command makes ITS OWN redirections permanent.  The builtin sees the merged view: the shell's table overlaid by
//  the layer of its execution parameters — and that layer also holds the temporary redirections of every enclosing compound
//  command or function call (`f >out` where f runs `exec 3>&1`).  `own` below is what exec's own redirections put into the layer.
pub type ShellFd = i32;
#[verifier::external_body] pub struct OpenFile { _p: u8 }
#[verifier::external_body] pub struct Error { _p: u8 }
#[verifier::external_body] pub struct ExecutionResult { _p: u8 }
impl ExecutionResult { #[verifier::external_body] pub fn success() -> Self { unimplemented!() } }
pub struct Shell { pub persistent: Ghost<Map<ShellFd, OpenFile>>, pub rest: u8 }
// projection of commands.rs ExecutionContext: `shell` is a `&mut Shell` there; the wrapper takes the whole context by `&mut` instead
pub struct ExecutionContext { pub shell: Shell, pub layer: Ghost<Map<ShellFd, OpenFile>>, pub own: Ghost<Map<ShellFd, OpenFile>>, pub rest: u8 }
pub struct FdList { pub m: Ghost<Map<ShellFd, OpenFile>> }
impl ExecutionContext {
    // iter_fds().collect(): every descriptor of the merged view (the layer wins over the shell's table)
    #[verifier::external_body]
    pub fn collect_fds(&self) -> (r: FdList) ensures r.m@ == self.shell.persistent@.union_prefer_right(self.layer@) { unimplemented!() }
}
impl Shell {
    #[verifier::external_body]
    pub fn replace_open_files(&mut self, fds: FdList) ensures final(self).persistent@ == fds.m@, final(self).rest == old(self).rest { unimplemented!() }
}
// ---- the head of ExecCommand::execute: what happens before the process is replaced
pub struct ExecCommand { pub name_for_argv0: Option<String>, pub empty_environment: bool, pub exec_as_login: bool, pub args: Vec<String> }   // the real fields (checked)
impl Shell { #[verifier::external_body] pub fn is_subshell(&self) -> (r: bool) { unimplemented!() } }
pub mod brush_core { pub mod error { use vstd::prelude::*;
    #[verifier::external_body] pub fn unimp<T>(msg: &'static str) -> (r: Result<T, super::super::Error>) ensures r is Err { unimplemented!() }
} }
// R14: building a CommandCommand from the arguments and running it (delegation to the `command` builtin in a subshell); result abstract
#[verifier::external_body]
pub fn vx_delegate_to_command(self_: &ExecCommand, context: &mut ExecutionContext) -> (r: Result<ExecutionResult, Error>) { unimplemented!() }
// the slice ends where the original goes on to replace the process
#[verifier::external_body]
pub fn vx_goes_on_to_replace_the_process() -> (r: ExecutionResult) { unimplemented!() }
