impl OpenFiles {
    pub open spec fn view(&self) -> Map<ShellFd, Option<OpenFile>> { self.files@ }
}
pub open spec fn prev(m: Map<ShellFd, Option<OpenFile>>, fd: ShellFd) -> Option<OpenFile> {
    if m.contains_key(fd) { m[fd] } else { None }
}
pub open spec fn is_open(m: Map<ShellFd, Option<OpenFile>>, fd: ShellFd) -> bool { m.contains_key(fd) && m[fd] is Some }
