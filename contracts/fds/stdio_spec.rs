// ---- C10: "descriptor table turned into the child's stdin/stdout/stderr ... when an external command is spawned"
//  (openfiles.rs TryFrom<OpenFile> for Stdio).  Whatever slot of the child is being filled, the child must get the very file the
//  table entry stands for: for `cmd >&2` the entry of descriptor 1 is the shell's standard error, and the child's standard output
//  must be that — not "whatever the shell has in the slot being filled" (Stdio::inherit()).
pub mod error {
    use vstd::prelude::*;
    #[verifier::external_body] pub struct Error { _p: u8 }
}
#[verifier::external_body] pub struct IoError { _p: u8 }
impl vstd::std_specs::convert::FromSpecImpl<IoError> for error::Error { open spec fn obeys_from_spec() -> bool { false } open spec fn from_spec(e: IoError) -> Self { arbitrary() } }
impl From<IoError> for error::Error { #[verifier::external_body] fn from(e: IoError) -> Self { unimplemented!() } }
pub type FileId = int;
#[verifier::external_body] pub struct Stdio { _p: u8 }
impl Stdio {
    pub uninterp spec fn ident(&self) -> FileId;          // ghost: the open file description the child will see
    pub uninterp spec fn slot_default() -> FileId;         // what inherit() yields: depends on the slot, not on the entry
    pub uninterp spec fn null_ident() -> FileId;
    #[verifier::external_body] pub fn inherit() -> (r: Self) ensures r.ident() == Self::slot_default() { unimplemented!() }
    #[verifier::external_body] pub fn null() -> (r: Self) ensures r.ident() == Self::null_ident() { unimplemented!() }
}
#[verifier::external_body] pub struct StdinH { _p: u8 }
impl StdinH {
    pub uninterp spec fn ident(&self) -> FileId;
    #[verifier::external_body]
    pub fn try_clone(&self) -> (r: Result<StdinH, IoError>) ensures r is Ok ==> r->Ok_0.ident() == self.ident() { unimplemented!() }
}
impl vstd::std_specs::convert::FromSpecImpl<StdinH> for Stdio { open spec fn obeys_from_spec() -> bool { false } open spec fn from_spec(h: StdinH) -> Self { arbitrary() } }
impl From<StdinH> for Stdio { #[verifier::external_body] fn from(h: StdinH) -> (r: Self) ensures r.ident() == h.ident() { unimplemented!() } }
#[verifier::external_body] pub struct StdoutH { _p: u8 }
impl StdoutH {
    pub uninterp spec fn ident(&self) -> FileId;
    #[verifier::external_body]
    pub fn try_clone(&self) -> (r: Result<StdoutH, IoError>) ensures r is Ok ==> r->Ok_0.ident() == self.ident() { unimplemented!() }
}
impl vstd::std_specs::convert::FromSpecImpl<StdoutH> for Stdio { open spec fn obeys_from_spec() -> bool { false } open spec fn from_spec(h: StdoutH) -> Self { arbitrary() } }
impl From<StdoutH> for Stdio { #[verifier::external_body] fn from(h: StdoutH) -> (r: Self) ensures r.ident() == h.ident() { unimplemented!() } }
#[verifier::external_body] pub struct StderrH { _p: u8 }
impl StderrH {
    pub uninterp spec fn ident(&self) -> FileId;
    #[verifier::external_body]
    pub fn try_clone(&self) -> (r: Result<StderrH, IoError>) ensures r is Ok ==> r->Ok_0.ident() == self.ident() { unimplemented!() }
}
impl vstd::std_specs::convert::FromSpecImpl<StderrH> for Stdio { open spec fn obeys_from_spec() -> bool { false } open spec fn from_spec(h: StderrH) -> Self { arbitrary() } }
impl From<StderrH> for Stdio { #[verifier::external_body] fn from(h: StderrH) -> (r: Self) ensures r.ident() == h.ident() { unimplemented!() } }
#[verifier::external_body] pub struct FileH { _p: u8 }
impl FileH {
    pub uninterp spec fn ident(&self) -> FileId;
    #[verifier::external_body]
    pub fn try_clone(&self) -> (r: Result<FileH, IoError>) ensures r is Ok ==> r->Ok_0.ident() == self.ident() { unimplemented!() }
}
impl vstd::std_specs::convert::FromSpecImpl<FileH> for Stdio { open spec fn obeys_from_spec() -> bool { false } open spec fn from_spec(h: FileH) -> Self { arbitrary() } }
impl From<FileH> for Stdio { #[verifier::external_body] fn from(h: FileH) -> (r: Self) ensures r.ident() == h.ident() { unimplemented!() } }
#[verifier::external_body] pub struct PipeReaderH { _p: u8 }
impl PipeReaderH {
    pub uninterp spec fn ident(&self) -> FileId;
    #[verifier::external_body]
    pub fn try_clone(&self) -> (r: Result<PipeReaderH, IoError>) ensures r is Ok ==> r->Ok_0.ident() == self.ident() { unimplemented!() }
}
impl vstd::std_specs::convert::FromSpecImpl<PipeReaderH> for Stdio { open spec fn obeys_from_spec() -> bool { false } open spec fn from_spec(h: PipeReaderH) -> Self { arbitrary() } }
impl From<PipeReaderH> for Stdio { #[verifier::external_body] fn from(h: PipeReaderH) -> (r: Self) ensures r.ident() == h.ident() { unimplemented!() } }
#[verifier::external_body] pub struct PipeWriterH { _p: u8 }
impl PipeWriterH {
    pub uninterp spec fn ident(&self) -> FileId;
    #[verifier::external_body]
    pub fn try_clone(&self) -> (r: Result<PipeWriterH, IoError>) ensures r is Ok ==> r->Ok_0.ident() == self.ident() { unimplemented!() }
}
impl vstd::std_specs::convert::FromSpecImpl<PipeWriterH> for Stdio { open spec fn obeys_from_spec() -> bool { false } open spec fn from_spec(h: PipeWriterH) -> Self { arbitrary() } }
impl From<PipeWriterH> for Stdio { #[verifier::external_body] fn from(h: PipeWriterH) -> (r: Self) ensures r.ident() == h.ident() { unimplemented!() } }
#[verifier::external_body] pub struct OwnedFd { _p: u8 }
impl OwnedFd {
    pub uninterp spec fn ident(&self) -> FileId;
    #[verifier::external_body]
    pub fn try_clone(&self) -> (r: Result<OwnedFd, IoError>) ensures r is Ok ==> r->Ok_0.ident() == self.ident() { unimplemented!() }
}
impl vstd::std_specs::convert::FromSpecImpl<OwnedFd> for Stdio { open spec fn obeys_from_spec() -> bool { false } open spec fn from_spec(h: OwnedFd) -> Self { arbitrary() } }
impl From<OwnedFd> for Stdio { #[verifier::external_body] fn from(h: OwnedFd) -> (r: Self) ensures r.ident() == h.ident() { unimplemented!() } }
#[verifier::external_body] pub struct StreamBox { _p: u8 }
// ---- compose_std_command (commands.rs): which table entry goes to which slot of the child, and which other descriptors are injected
pub type ShellFd = i32;
pub struct OpenFiles { _p: u8 }
impl OpenFiles { pub const STDIN_FD: ShellFd = 0; pub const STDOUT_FD: ShellFd = 1; pub const STDERR_FD: ShellFd = 2; }     // values checked at extraction
#[verifier::external_body] pub struct ExecutionContext { _p: u8 }
impl ExecutionContext {
    pub uninterp spec fn view(&self, fd: ShellFd) -> Option<OpenFile>;      // the merged table (parameters over shell): None = closed or never opened
    #[verifier::external_body]
    pub fn try_fd(&self, fd: ShellFd) -> (r: Option<OpenFile>) ensures r == self.view(fd) { unimplemented!() }
}
pub enum Slot { Inherit, File(FileId) }
#[verifier::external_body] pub struct StdCommand { _p: u8 }
impl StdCommand {
    pub uninterp spec fn slot(&self, k: int) -> Slot;                        // ghost: what std::process::Command will give the child at 0 / 1 / 2
    #[verifier::external_body]
    pub fn stdin(&mut self, s: Stdio) ensures final(self).slot(0) == Slot::File(s.ident()), final(self).slot(1) == old(self).slot(1), final(self).slot(2) == old(self).slot(2) { unimplemented!() }
    #[verifier::external_body]
    pub fn stdout(&mut self, s: Stdio) ensures final(self).slot(1) == Slot::File(s.ident()), final(self).slot(0) == old(self).slot(0), final(self).slot(2) == old(self).slot(2) { unimplemented!() }
    #[verifier::external_body]
    pub fn stderr(&mut self, s: Stdio) ensures final(self).slot(2) == Slot::File(s.ident()), final(self).slot(0) == old(self).slot(0), final(self).slot(1) == old(self).slot(1) { unimplemented!() }
}
// the entry of slot k that stands for the process's own stream k needs no redirection (the child inherits exactly that)
pub open spec fn own_stream(f: OpenFile, k: int) -> bool { (k == 0 && f is Stdin) || (k == 1 && f is Stdout) || (k == 2 && f is Stderr) }
// what the child must see at slot k.  An entry the table does not have (closed with `N>&-`, or never opened) must NOT reach the child
// as an open descriptor — `closed_slot_ok` is where brush differs today (known finding).
pub open spec fn slot_ok(v: Option<OpenFile>, k: int, s: Slot, closed_slot_ok: bool) -> bool {
    match v {
        Some(f) => if own_stream(f, k) { s is Inherit } else { s == Slot::File(f.ident()) },
        None => closed_slot_ok,
    }
}
