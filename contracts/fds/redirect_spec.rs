// ---- C10: which descriptor a redirection applies to when none is written (POSIX XCU 2.7: "<", "<>", "<&" default to
//      standard input; ">", ">|", ">>", ">&" to standard output), and how the target file is opened (2.7.2 with noclobber:
//      "`>` shall fail if the file named by the expansion of word exists and is a regular file"; ">|" overrides noclobber;
//      ">>" appends without truncating; "<>" opens for reading and writing, creating if needed; "<" never creates).
pub mod ast {
    use vstd::prelude::*;
    pub use super::IoFileRedirectKind;
}
pub open spec fn default_fd(k: IoFileRedirectKind) -> ShellFd {
    match k {
        IoFileRedirectKind::Read | IoFileRedirectKind::ReadAndWrite | IoFileRedirectKind::DuplicateInput => 0,
        _ => 1,
    }
}
// the flags of std::fs::OpenOptions that the slice sets (a ghost-free exec struct standing for the real builder)
pub struct OpenOptions { pub read: bool, pub write: bool, pub append: bool, pub truncate: bool, pub create: bool, pub create_new: bool }
impl OpenOptions {
    pub fn read(&mut self, v: bool) ensures *final(self) == (OpenOptions { read: v, ..*old(self) }) { self.read = v; }
    pub fn write(&mut self, v: bool) ensures *final(self) == (OpenOptions { write: v, ..*old(self) }) { self.write = v; }
    pub fn append(&mut self, v: bool) ensures *final(self) == (OpenOptions { append: v, ..*old(self) }) { self.append = v; }
    pub fn truncate(&mut self, v: bool) ensures *final(self) == (OpenOptions { truncate: v, ..*old(self) }) { self.truncate = v; }
    pub fn create(&mut self, v: bool) ensures *final(self) == (OpenOptions { create: v, ..*old(self) }) { self.create = v; }
    pub fn create_new(&mut self, v: bool) ensures *final(self) == (OpenOptions { create_new: v, ..*old(self) }) { self.create_new = v; }
}
pub open spec fn no_flags() -> OpenOptions { OpenOptions { read: false, write: false, append: false, truncate: false, create: false, create_new: false } }
pub open spec fn want_flags(k: IoFileRedirectKind, noclobber: bool, target_is_regular_file: bool) -> OpenOptions {
    let z = no_flags();
    match k {
        IoFileRedirectKind::Read | IoFileRedirectKind::DuplicateInput => OpenOptions { read: true, ..z },
        IoFileRedirectKind::Write =>
            if noclobber { if target_is_regular_file { OpenOptions { write: true, create_new: true, ..z } }   // open fails: the file exists
                           else { OpenOptions { write: true, create: true, ..z } } }                           // never truncates under noclobber
            else { OpenOptions { write: true, create: true, truncate: true, ..z } },
        IoFileRedirectKind::Clobber => OpenOptions { write: true, create: true, truncate: true, ..z },
        IoFileRedirectKind::Append => OpenOptions { append: true, create: true, ..z },
        IoFileRedirectKind::ReadAndWrite => OpenOptions { read: true, write: true, create: true, ..z },
        IoFileRedirectKind::DuplicateOutput => OpenOptions { write: true, create: true, ..z },
    }
}
#[verifier::external_body]
pub struct PathBuf { _p: u8 }
impl PathBuf {
    pub uninterp spec fn is_regular(&self) -> bool;
    #[verifier::external_body]
    pub fn is_file(&self) -> (r: bool) ensures r == self.is_regular() { unimplemented!() }
}
pub struct RuntimeOptions { pub disallow_overwriting_regular_files_via_output_redirection: bool }   // projection (field checked)
impl Shell {
    pub uninterp spec fn opts(&self) -> RuntimeOptions;
    #[verifier::external_body]
    pub fn options(&self) -> (r: &RuntimeOptions) ensures *r == self.opts() { unimplemented!() }
}
impl error::Error { pub uninterp spec fn is_unimplemented(&self) -> bool; }
pub mod error_fns {
    use vstd::prelude::*;
    use super::*;
    #[verifier::external_body]
    pub fn unimp<T>(msg: &'static str) -> (r: Result<T, error::Error>) ensures r is Err, r->Err_0.is_unimplemented() { unimplemented!() }
}
