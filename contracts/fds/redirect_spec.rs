// ---- C10: which descriptor a redirection applies to when none is written (POSIX XCU 2.7: "<", "<>", "<&" default to
//      standard input; ">", ">|", ">>", ">&" to standard output), and how the target file is opened (2.7.2 with noclobber:
//      "`>` shall fail if the file named by the expansion of word exists and is a regular file"; ">|" overrides noclobber;
//      ">>" appends without truncating; "<>" opens for reading and writing, creating if needed; "<" never creates).
pub mod ast {
    use vstd::prelude::*;
    pub use super::IoFileRedirectKind;
}
pub open spec fn default_fd(k: IoFileRedirectKind) -> ShellFd {
    match k {
        IoFileRedirectKind::Read | IoFileRedirectKind::ReadAndWrite | IoFileRedirectKind::DuplicateInput => 0,
        _ => 1,
    }
}
// the flags of std::fs::OpenOptions that the slice sets (a ghost-free exec struct standing for the real builder)
pub struct OpenOptions { pub read: bool, pub write: bool, pub append: bool, pub truncate: bool, pub create: bool, pub create_new: bool }
impl OpenOptions {
    pub fn read(&mut self, v: bool) ensures *final(self) == (OpenOptions { read: v, ..*old(self) }) { self.read = v; }
    pub fn write(&mut self, v: bool) ensures *final(self) == (OpenOptions { write: v, ..*old(self) }) { self.write = v; }
    pub fn append(&mut self, v: bool) ensures *final(self) == (OpenOptions { append: v, ..*old(self) }) { self.append = v; }
    pub fn truncate(&mut self, v: bool) ensures *final(self) == (OpenOptions { truncate: v, ..*old(self) }) { self.truncate = v; }
    pub fn create(&mut self, v: bool) ensures *final(self) == (OpenOptions { create: v, ..*old(self) }) { self.create = v; }
    pub fn create_new(&mut self, v: bool) ensures *final(self) == (OpenOptions { create_new: v, ..*old(self) }) { self.create_new = v; }
}
pub open spec fn no_flags() -> OpenOptions { OpenOptions { read: false, write: false, append: false, truncate: false, create: false, create_new: false } }
pub open spec fn want_flags(k: IoFileRedirectKind, noclobber: bool, target_is_regular_file: bool) -> OpenOptions {
    let z = no_flags();
    match k {
        IoFileRedirectKind::Read | IoFileRedirectKind::DuplicateInput => OpenOptions { read: true, ..z },
        IoFileRedirectKind::Write =>
            if noclobber { if target_is_regular_file { OpenOptions { write: true, create_new: true, ..z } }   // open fails: the file exists
                           else { OpenOptions { write: true, create: true, ..z } } }                           // never truncates under noclobber
            else { OpenOptions { write: true, create: true, truncate: true, ..z } },
        IoFileRedirectKind::Clobber => OpenOptions { write: true, create: true, truncate: true, ..z },
        IoFileRedirectKind::Append => OpenOptions { append: true, create: true, ..z },
        IoFileRedirectKind::ReadAndWrite => OpenOptions { read: true, write: true, create: true, ..z },
        IoFileRedirectKind::DuplicateOutput => OpenOptions { write: true, create: true, ..z },
    }
}
// ---- paths.  brush never calls chdir: `cd` only changes the shell's own working directory, so a relative path means different
//  files to std (which resolves it against the PROCESS's directory: Path::is_file, File::open) and to the shell (Shell::absolute_path
//  / Shell::open_file resolve against the SHELL's directory).
pub uninterp spec fn fs_regular(abs_path: Seq<char>) -> bool;                  // file system: a regular file exists at this absolute path
pub uninterp spec fn is_abs(p: Seq<char>) -> bool;
pub uninterp spec fn resolve(dir: Seq<char>, p: Seq<char>) -> Seq<char>;       // p itself if absolute, otherwise dir joined with p
pub uninterp spec fn process_cwd() -> Seq<char>;
pub broadcast axiom fn axiom_resolve_absolute(dir: Seq<char>, p: Seq<char>)
    requires is_abs(p),
    ensures #[trigger] resolve(dir, p) == p;
#[verifier::external_body]
pub struct PathBuf { _p: u8 }
impl PathBuf {
    pub uninterp spec fn text(&self) -> Seq<char>;
    // what std's Path::is_file answers: a relative path is looked up from the process's working directory
    pub open spec fn is_regular(&self) -> bool { fs_regular(resolve(process_cwd(), self.text())) }
    #[verifier::external_body]
    pub fn is_file(&self) -> (r: bool) ensures r == self.is_regular() { unimplemented!() }
}
// lstat-style probe (does not follow a symbolic link): a different question from "is the file that would be opened a regular file"
pub uninterp spec fn fs_regular_nofollow(abs_path: Seq<char>) -> bool;
#[verifier::external_body]
pub fn path_is_file_nofollow(p: &PathBuf) -> (r: bool) ensures r == fs_regular_nofollow(resolve(process_cwd(), p.text())) { unimplemented!() }
impl Shell { pub uninterp spec fn cwd(&self) -> Seq<char>; }
// R14 stubs.  Shell::absolute_path (shell/fs.rs): the path itself if empty or absolute, else working_dir().join(path)
#[verifier::external_body]
pub fn shell_absolute_path(shell: &Shell, s: String) -> (r: PathBuf)
    ensures r.text() == resolve(shell.cwd(), s@), s@.len() > 0 ==> is_abs(r.text())
{ unimplemented!() }
#[verifier::external_body]
pub fn pathbuf_from(s: String) -> (r: PathBuf) ensures r.text() == s@ { unimplemented!() }
impl OpenFile {
    pub uninterp spec fn opened_path(&self) -> Seq<char>;      // ghost: the absolute path it was opened from
    pub uninterp spec fn opened_with(&self) -> OpenOptions;    // ghost: the flags it was opened with
}
// Shell::open_file (shell/fs.rs): resolves the path with absolute_path (the shell's directory), then OpenOptions::open
#[verifier::external_body]
pub fn shell_open_file(shell: &Shell, options: &OpenOptions, path: &PathBuf, params: &ExecutionParameters) -> (r: Result<OpenFile, error::Error>)
    ensures r is Ok ==> r->Ok_0.opened_path() == resolve(shell.cwd(), path.text()) && r->Ok_0.opened_with() == *options
{ unimplemented!() }
pub struct RuntimeOptions { pub disallow_overwriting_regular_files_via_output_redirection: bool }   // projection (field checked)
impl Shell {
    pub uninterp spec fn opts(&self) -> RuntimeOptions;
    #[verifier::external_body]
    pub fn options(&self) -> (r: &RuntimeOptions) ensures *r == self.opts() { unimplemented!() }
}
impl error::Error { pub uninterp spec fn is_unimplemented(&self) -> bool; }
pub mod error_fns {
    use vstd::prelude::*;
    use super::*;
    #[verifier::external_body]
    pub fn unimp<T>(msg: &'static str) -> (r: Result<T, error::Error>) ensures r is Err, r->Err_0.is_unimplemented() { unimplemented!() }
}
#[verifier::external_body]
pub fn shell_absolute_path_str(shell: &Shell, s: &str) -> (r: PathBuf)
    ensures r.text() == resolve(shell.cwd(), s@), s@.len() > 0 ==> is_abs(r.text())
{ unimplemented!() }
pub fn new_open_options() -> (r: OpenOptions) ensures r == no_flags() { OpenOptions { read: false, write: false, append: false, truncate: false, create: false, create_new: false } }
// Option::or_else(o, f): o when it is Some, else what f returns (std documented behaviour).  ASSUMED.
pub assume_specification<T, F: FnOnce() -> Option<T>> [Option::<T>::or_else] (o: Option<T>, f: F) -> (r: Option<T>)
    requires o is None ==> f.requires(()),
    ensures o is Some ==> r == o, o is None ==> f.ensures((), r);
