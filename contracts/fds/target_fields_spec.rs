// ---- prelude: the target word of a redirection must expand to exactly one field (bash: "ambiguous redirect" otherwise); the
//      three places in interp::setup_redirect that take the first field out of the expansion result (`&> word`, `> word`, `>& word`).
pub mod error {
    use vstd::prelude::*;
    pub enum ErrorKind { InvalidRedirection }       // projection of error.rs ErrorKind (variant checked)
    #[verifier::external_body]
    pub struct Error { _p: u8 }
    impl vstd::std_specs::convert::FromSpecImpl<ErrorKind> for Error {
        open spec fn obeys_from_spec() -> bool { false }
        open spec fn from_spec(k: ErrorKind) -> Self { arbitrary() }
    }
    impl From<ErrorKind> for Error {
        #[verifier::external_body]
        fn from(k: ErrorKind) -> Self { unimplemented!() }
    }
}
pub mod ast { use vstd::prelude::*; #[verifier::external_body] pub struct Word { _p: u8 } }
#[verifier::external_body] pub struct Shell { _p: u8 }
#[verifier::external_body] pub struct ExecutionParameters { _p: u8 }
pub uninterp spec fn split_spec(w: ast::Word, s: Shell) -> Option<Seq<Seq<char>>>;     // fields of the word in that shell state; None: the expansion fails
pub open spec fn strs(v: Seq<String>) -> Seq<Seq<char>> { v.map_values(|s: String| s@) }
pub mod expansion {
    use vstd::prelude::*;
    use super::*;
    #[verifier::external_body]
    pub fn full_expand_and_split_word(shell: &mut Shell, params: &ExecutionParameters, word_str: &ast::Word) -> (r: Result<Vec<String>, error::Error>)
        ensures match split_spec(*word_str, *old(shell)) { Some(f) => r is Ok && strs(r->Ok_0@) == f, None => r is Err }
    { unimplemented!() }
}
#[verifier::external_body]
pub fn setup_redirect_output_and_error_to(shell: &Shell, params: &mut ExecutionParameters, file_path: &String, append: bool) -> Result<(), error::Error> { unimplemented!() }
pub open spec fn one_field(w: ast::Word, s: Shell) -> bool { split_spec(w, s) is Some && split_spec(w, s)->Some_0.len() == 1 }
