// ---- C10: per-command layering.  A command's ExecutionParameters carry their own table; a descriptor not specified there
//      (neither opened nor closed) falls back to the shell's persistent table.  `set_fd` writes the layer only — the shell's
//      table is not even reachable from it (`&Shell`), which is why redirections on one command cannot leak into the next.
impl Clone for OpenFile {
    #[verifier::external_body]
    fn clone(&self) -> (r: Self) ensures r == *self { unimplemented!() }
}
#[verifier::external_body]
pub struct Shell { _p: u8 }
impl Shell {
    pub uninterp spec fn persistent(&self) -> OpenFiles;
    #[verifier::external_body]
    pub fn persistent_open_files(&self) -> (r: &OpenFiles) ensures *r == self.persistent() { unimplemented!() }
}
pub open spec fn layer_lookup(own: Map<ShellFd, Option<OpenFile>>, base: Map<ShellFd, Option<OpenFile>>, fd: ShellFd) -> Option<OpenFile> {
    if own.contains_key(fd) { own[fd] } else if base.contains_key(fd) { base[fd] } else { None }
}
