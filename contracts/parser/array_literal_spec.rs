// ---- prelude: the element of an array literal `[key]=value` (PEG rule `literal_array_element` of brush-parser/src/word.rs).
//  `declare -p` writes the key of an associative array element quoted (`["a]=b"]="v"`), so a key may contain `]`, also `]=`.
//  The reader must therefore try the QUOTE-AWARE key (rule array_index: an arithmetic word up to an unquoted `]`) before the plain one
//  (everything up to the first `]`): PEG choice is ordered, the first alternative that matches decides.
//  The rule's alternatives are read into `alt(i)` below this prelude (generated on every run).
pub enum Alt { QuoteAwareKey, PlainKey, Bare, Other }
pub enum Parsed { Keyed { key_from: int, key_to: int, value_from: int }, Unkeyed }
// rule array_index at `pos`: abstract (where the quote-aware subscript ends), it consumes no less than nothing
pub uninterp spec fn index_end(s: Seq<char>, pos: int) -> Option<int>;
// first `]` at or after pos (the plain alternative stops there): s.len() if there is none
pub open spec fn first_close(s: Seq<char>, pos: int) -> int decreases s.len() - pos {
    if pos < 0 || pos >= s.len() { s.len() as int } else if s[pos] == ']' { pos } else { first_close(s, pos + 1) }
}
pub open spec fn close_eq_at(s: Seq<char>, p: int) -> bool { 0 <= p && p + 1 < s.len() && s[p] == ']' && s[p + 1] == '=' }
pub open spec fn alt_match(a: Alt, s: Seq<char>) -> Option<Parsed> {
    match a {
        Alt::QuoteAwareKey => if s.len() > 0 && s[0] == '[' && index_end(s, 1) is Some && close_eq_at(s, index_end(s, 1)->Some_0)
            { Some(Parsed::Keyed { key_from: 1, key_to: index_end(s, 1)->Some_0, value_from: index_end(s, 1)->Some_0 + 2 }) } else { None },
        Alt::PlainKey => if s.len() > 0 && s[0] == '[' && close_eq_at(s, first_close(s, 1))
            { Some(Parsed::Keyed { key_from: 1, key_to: first_close(s, 1), value_from: first_close(s, 1) + 2 }) } else { None },
        Alt::Bare => if s.len() > 0 { Some(Parsed::Unkeyed) } else { None },
        Alt::Other => None,
    }
}
// what the reader must return: the quote-aware reading whenever it applies
pub open spec fn wanted(s: Seq<char>) -> Option<Parsed> {
    if alt_match(Alt::QuoteAwareKey, s) is Some { alt_match(Alt::QuoteAwareKey, s) }
    else if alt_match(Alt::PlainKey, s) is Some { alt_match(Alt::PlainKey, s) }
    else { alt_match(Alt::Bare, s) }
}
