// ---- prelude: PEG action blocks of brush-parser/src/word.rs that turn a run of digits into a number.  The digits come from the
//  script text and are unbounded: the conversion may fail (overflow), and then the alternative must FAIL (`{? .. }` returning Err),
//  never panic (C01).
#[verifier::external_body] #[derive(Debug)] pub struct ParseIntError { _p: u8 }
// R14: `n.parse()` with the target type fixed by the context
#[verifier::external_body] pub fn parse_usize(s: &str) -> (r: Result<usize, ParseIntError>) { unimplemented!() }
#[verifier::external_body] pub fn parse_u32(s: &str) -> (r: Result<u32, ParseIntError>) { unimplemented!() }
#[verifier::external_body] pub fn parse_i32(s: &str) -> (r: Result<i32, ParseIntError>) { unimplemented!() }
pub enum TildeExpr { Home, WorkingDir, OldWorkingDir, UserHome(String), NthDirFromTopOfDirStack { n: usize, plus_used: bool }, NthDirFromBottomOfDirStack { n: usize } }   // variants used are checked against word.rs
pub assume_specification<T, E, F> [Result::<T, E>::or] (r: Result<T, E>, res: Result<T, F>) -> (o: Result<T, F>)
    ensures r is Ok ==> o == Ok::<T, F>(r->Ok_0), r is Err ==> o == res;
