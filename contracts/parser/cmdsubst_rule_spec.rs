// ---- prelude: the `$(..)` alternative of the PEG rule `command_substitution` (brush-parser/src/word.rs).  The highlighter (unit U20c)
//  and error positions rely on the text of the piece being exactly the characters between `$(` and `)`: the captured command starts
//  two characters after the piece and the piece ends one character after it — nothing is skipped in between.
//  The alternative's element sequence is read into the `match_<i>` functions below this prelude (generated on every run).
//  ASSUMED (peg): elements match in order; `e*` is greedy and not re-entered; `$(e)` captures the matched text.
pub struct Caps { pub c_from: int, pub c_to: int }
pub open spec fn caps0() -> Caps { Caps { c_from: -1, c_to: -1 } }
pub uninterp spec fn rule_end(name: int, s: Seq<char>, pos: int) -> Option<int>;          // where a sub-rule's match ends (abstract)
pub uninterp spec fn class_star_end(class: int, s: Seq<char>, pos: int) -> int;            // where a greedy `[..]*` stops (abstract, >= pos)
pub axiom fn axiom_class_star(class: int, s: Seq<char>, pos: int) ensures class_star_end(class, s, pos) >= pos;
