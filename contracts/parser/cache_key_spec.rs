// ---- prelude: the keys of the memoising parser wrappers (#[cached::macros::cached(key = "..", convert = r#"{ .. }"#)]).
//  C07 / C05 / C02 (and the last sentence of C15): what a text parses to depends on that text and the active options only, never on
//  which texts were parsed before.  With a memoising wrapper that holds iff equal keys imply equal (text, options); the unit proves the
//  stronger "the key IS (text, options)".
#[verifier::external_body] pub struct ParserOptions { _p: u8 }
#[verifier::external_body] pub struct TokenizerOptions { _p: u8 }
// derived Clone behind ToOwned: returns an equal value (ASSUMED)
impl ParserOptions { #[verifier::external_body] pub fn to_owned(&self) -> (r: Self) ensures r == *self { unimplemented!() } }
impl TokenizerOptions { #[verifier::external_body] pub fn to_owned(&self) -> (r: Self) ensures r == *self { unimplemented!() } }
pub mod brush_parser { pub use super::ParserOptions; }
// stands for a `convert` block this unit cannot read: any value
#[verifier::external_body] pub fn vx_unrecognised_convert<T>() -> T { unimplemented!() }
