// ---- prelude: the action blocks of the PEG rule `io_here` (brush-parser/src/parser/peg.rs).  POSIX XCU 2.7.4: "If any part of word
//  is quoted, the delimiter shall be formed by performing quote removal on word, and the here-document lines shall not be expanded.
//  Otherwise ... all lines of the here-document shall be expanded"; `<<-` strips leading tabs, `<<` does not.  So the document built
//  by the parser must carry requires_expansion = "no character of the delimiter word is a quote or a backslash" (the same test the
//  tokenizer uses to find the end line: tokenizer.rs is_quoting_char), and remove_tabs = "the operator was <<-".
#[verifier::external_body] pub struct Token { _p: u8 }
impl Token {
    pub uninterp spec fn text(&self) -> Seq<char>;
    #[verifier::external_body] pub fn to_str(&self) -> (r: &str) ensures r@ == self.text() { unimplemented!() }
}
#[verifier::external_body] pub struct Word { _p: u8 }
impl Word { pub uninterp spec fn of(t: Token) -> Word; }
impl vstd::std_specs::convert::FromSpecImpl<&Token> for Word {
    open spec fn obeys_from_spec() -> bool { true }
    open spec fn from_spec(t: &Token) -> Self { Word::of(*t) }
}
impl From<&Token> for Word { #[verifier::external_body] fn from(t: &Token) -> (r: Self) ensures r == Word::of(*t) { unimplemented!() } }
pub open spec fn is_quoting(c: char) -> bool { c == '\'' || c == '"' || c == '\\' }
pub open spec fn has_quoting(s: Seq<char>) -> bool { exists|i: int| 0 <= i < s.len() && is_quoting(#[trigger] s[i]) }
// R14: `s.contains([a, b, c])` (std: true iff some character of s is one of the array's)
#[verifier::external_body]
pub fn str_contains_any3(s: &str, p: [char; 3]) -> (r: bool)
    ensures r == exists|i: int| 0 <= i < s@.len() && (#[trigger] s@[i] == p[0] || s@[i] == p[1] || s@[i] == p[2])
{ unimplemented!() }
pub open spec fn here_doc_ok(r: ast::IoHereDocument, dash: bool, here_tag: Token, doc: Token) -> bool {
    &&& r.remove_tabs == dash
    &&& r.requires_expansion == !has_quoting(here_tag.text())
    &&& r.here_end == Word::of(here_tag)
    &&& r.doc == Word::of(doc)
}
