// ---- C09 / C18: the variable environment as a stack of (kind, map) scopes.
#[verifier::external_body]
pub struct ShellVariable { _p: u8 }
impl ShellVariable {
    pub uninterp spec fn readonly(&self) -> bool;
    pub uninterp spec fn is_placeholder(&self) -> bool;   // a declared-but-unset variable: ShellValue::Unset(..)
    #[verifier::external_body]
    pub fn is_readonly(&self) -> (r: bool) ensures r == self.readonly() { unimplemented!() }
    pub uninterp spec fn exported_version(&self) -> ShellVariable;      // the same variable with the export attribute set
    // variables.rs export(): sets the attribute (unit U46 proves that for the real body)
    #[verifier::external_body]
    pub fn export(&mut self) -> (r: &mut Self) ensures *final(self) == old(self).exported_version(), *final(r) == *final(self) { unimplemented!() }
    // variables.rs: value() is `&self.value`; ShellValue::is_set() is "not the Unset variant"
    #[verifier::external_body]
    pub fn value(&self) -> (r: &ShellValue) ensures r.set_spec() == !self.is_placeholder() { unimplemented!() }
}
#[verifier::external_body]
pub struct ShellValue { _p: u8 }
impl ShellValue {
    pub uninterp spec fn set_spec(&self) -> bool;
    #[verifier::external_body]
    pub fn is_set(&self) -> (r: bool) ensures r == self.set_spec() { unimplemented!() }
}
// ShellVariableMap's five methods are one-line HashMap delegations; vstd's HashMap<String, _> borrowed-key specs did not close
// in the probes, so the map is opaque with ASSUMED map contracts (view: name -> variable)
#[verifier::external_body]
pub struct ShellVariableMap { _p: u8 }
impl ShellVariableMap {
    pub uninterp spec fn view(&self) -> Map<Seq<char>, ShellVariable>;
    #[verifier::external_body]
    pub fn get(&self, name: &str) -> (r: Option<&ShellVariable>)
        ensures r is Some <==> self@.contains_key(name@), r is Some ==> *r->Some_0 == self@[name@]
    { unimplemented!() }
    #[verifier::external_body]
    pub fn set(&mut self, name: &str, var: ShellVariable) -> (r: Option<ShellVariable>)
        ensures final(self)@ == old(self)@.insert(name@, var), (r is None) == !old(self)@.contains_key(name@)
    { unimplemented!() }
    #[verifier::external_body]
    pub fn unset(&mut self, name: &str) -> (r: Option<ShellVariable>)
        ensures final(self)@ == old(self)@.remove(name@),
            r == (if old(self)@.contains_key(name@) { Some(old(self)@[name@]) } else { None::<ShellVariable> })
    { unimplemented!() }
}
impl Default for ShellVariableMap {
    #[verifier::external_body]
    fn default() -> (r: Self) ensures r@ == Map::<Seq<char>, ShellVariable>::empty() { unimplemented!() }
}
pub mod error {
    use vstd::prelude::*;
    use super::*;
    // projection of error.rs ErrorKind (variants checked against the source)
    pub enum ErrorKind { UnexpectedScopeType { expected: EnvironmentScope, actual: EnvironmentScope }, MissingScope, MissingScopeForNewVariable, ReadonlyVariable }
    pub struct Error { pub kind: ErrorKind }
    impl vstd::std_specs::convert::FromSpecImpl<ErrorKind> for Error {
        open spec fn obeys_from_spec() -> bool { true }
        open spec fn from_spec(k: ErrorKind) -> Self { Error { kind: k } }
    }
    impl From<ErrorKind> for Error { fn from(k: ErrorKind) -> Self { Error { kind: k } } }
}
pub open spec fn holds(sc: Seq<(EnvironmentScope, ShellVariableMap)>, k: int, name: Seq<char>) -> bool { sc[k].1@.contains_key(name) }

// C09 "gone after return, restoring whatever they shadowed": popping what was pushed gives back exactly the old stack
pub proof fn lemma_push_pop_restores(old_scopes: Seq<(EnvironmentScope, ShellVariableMap)>, pushed: (EnvironmentScope, ShellVariableMap))
    ensures old_scopes.push(pushed).drop_last() == old_scopes
{
    assert(old_scopes.push(pushed).drop_last() =~= old_scopes);
}

// R14: `ShellVariable::new(ShellValue::Unset(ShellValueUnsetType::Untyped))` -> the "declared but unset" placeholder
#[verifier::external_body]
pub fn vx_unset_placeholder() -> (r: ShellVariable) ensures r.is_placeholder(), !r.readonly() { unimplemented!() }
// the scope that `unset name` acts on: the innermost one that holds the name
pub open spec fn innermost(sc: Seq<(EnvironmentScope, ShellVariableMap)>, k: int, name: Seq<char>) -> bool {
    0 <= k < sc.len() && holds(sc, k, name) && forall|j: int| k < j < sc.len() ==> !holds(sc, j, name)
}
// scope k is the top-most local frame (the locals of the function that is running)
pub open spec fn topmost_local(sc: Seq<(EnvironmentScope, ShellVariableMap)>, k: int) -> bool {
    0 <= k < sc.len() && sc[k].0 is Local && forall|j: int| k < j < sc.len() ==> !(sc[j].0 is Local)
}
pub open spec fn same_but(a: Seq<(EnvironmentScope, ShellVariableMap)>, b: Seq<(EnvironmentScope, ShellVariableMap)>, k: int) -> bool {
    a.len() == b.len() && forall|j: int| 0 <= j < a.len() && j != k ==> a[j].0 == b[j].0 && (#[trigger] a[j]).1@ == b[j].1@
}
// scope k is the innermost one of the given kind
pub open spec fn innermost_of_kind(sc: Seq<(EnvironmentScope, ShellVariableMap)>, k: int, kind: EnvironmentScope) -> bool {
    0 <= k < sc.len() && sc[k].0 == kind && forall|j: int| k < j < sc.len() ==> sc[j].0 != kind
}
