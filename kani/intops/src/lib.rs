#![allow(unused)]
fn cdiv(a: i128, b: i128) -> i128 { let q = a.abs().div_euclid(b.abs()); if (a < 0) != (b < 0) { -q } else { q } }
fn crem(a: i128, b: i128) -> i128 { a - b * cdiv(a, b) }
fn emod(a: i128, b: i128) -> i128 { let m = b.abs(); ((a % m) + m) % m }          // Euclidean remainder, 0 <= r < |b|
fn ediv(a: i128, b: i128) -> i128 { (a - emod(a, b)) / b }                         // Euclidean quotient

#[cfg(kani)]
#[kani::proof]
fn intop_i8_saturating_add() { let a: i8 = kani::any();let b: i8 = kani::any();assert!(a.saturating_add(b) as i64 == (a as i64 + b as i64).clamp(i8::MIN as i64, i8::MAX as i64)); }

#[cfg(kani)]
#[kani::proof]
fn intop_i8_saturating_sub() { let a: i8 = kani::any();let b: i8 = kani::any();assert!(a.saturating_sub(b) as i64 == (a as i64 - b as i64).clamp(i8::MIN as i64, i8::MAX as i64)); }

#[cfg(kani)]
#[kani::proof]
fn intop_i8_saturating_mul() { let a: i8 = kani::any();let b: i8 = kani::any();assert!(a.saturating_mul(b) as i64 == (a as i64 * b as i64).clamp(i8::MIN as i64, i8::MAX as i64)); }

#[cfg(kani)]
#[kani::proof]
fn intop_i8_checked_shl() { let a: i8 = kani::any();let s: u32 = kani::any();assert!(a.checked_shl(s) == if s < 8 { Some(a.wrapping_shl(s)) } else { None }); }

#[cfg(kani)]
#[kani::proof]
fn intop_i8_checked_shr() { let a: i8 = kani::any();let s: u32 = kani::any();assert!(a.checked_shr(s) == if s < 8 { Some(a.wrapping_shr(s)) } else { None }); }

#[cfg(kani)]
#[kani::proof]
fn intop_i8_overflowing_add() { let a: i8 = kani::any();let b: i8 = kani::any();let (r, o) = a.overflowing_add(b); assert!(r == a.wrapping_add(b)); assert!(o == !(i8::MIN as i64 <= (a as i64 + b as i64) && (a as i64 + b as i64) <= i8::MAX as i64)); }

#[cfg(kani)]
#[kani::proof]
fn intop_i8_overflowing_sub() { let a: i8 = kani::any();let b: i8 = kani::any();let (r, o) = a.overflowing_sub(b); assert!(r == a.wrapping_sub(b)); assert!(o == !(i8::MIN as i64 <= (a as i64 - b as i64) && (a as i64 - b as i64) <= i8::MAX as i64)); }

#[cfg(kani)]
#[kani::proof]
fn intop_i8_overflowing_mul() { let a: i8 = kani::any();let b: i8 = kani::any();let (r, o) = a.overflowing_mul(b); assert!(r == a.wrapping_mul(b)); assert!(o == !(i8::MIN as i64 <= (a as i64 * b as i64) && (a as i64 * b as i64) <= i8::MAX as i64)); }

#[cfg(kani)]
#[kani::proof]
fn intop_i8_wrapping_neg() { let a: i8 = kani::any();assert!(a.wrapping_neg() as i64 == if a == i8::MIN { i8::MIN as i64 } else { -(a as i64) }); }

#[cfg(kani)]
#[kani::proof]
fn intop_i8_wrapping_abs() { let a: i8 = kani::any();assert!(a.wrapping_abs() as i64 == if a == i8::MIN { i8::MIN as i64 } else { (a as i64).abs() }); }

#[cfg(kani)]
#[kani::proof]
fn intop_i8_wrapping_div() { let a: i8 = kani::any();let b: i8 = kani::any();kani::assume(b != 0); let q = a.wrapping_div(b) as i64; if a == i8::MIN && b == -1 { assert!(q == i8::MIN as i64); } else { let r = a as i64 - q * (b as i64); assert!(r.abs() < (b as i64).abs()); assert!(r == 0 || (r < 0) == (a < 0)); } }

#[cfg(kani)]
#[kani::proof]
fn intop_i8_wrapping_rem() { let a: i8 = kani::any();let b: i8 = kani::any();kani::assume(b != 0); let r = a.wrapping_rem(b) as i64; if b == -1 { assert!(r == 0); } else { let q = a.wrapping_div(b) as i64; assert!(r == a as i64 - q * (b as i64)); assert!(r.abs() < (b as i64).abs()); assert!(r == 0 || (r < 0) == (a < 0)); } }

#[cfg(kani)]
#[kani::proof]
fn intop_i8_checked_neg() { let a: i8 = kani::any();assert!(a.checked_neg().map(|x| x as i64) == if a == i8::MIN { None } else { Some(-(a as i64)) }); }

#[cfg(kani)]
#[kani::proof]
fn intop_i8_checked_abs() { let a: i8 = kani::any();assert!(a.checked_abs().map(|x| x as i64) == if a == i8::MIN { None } else { Some((a as i64).abs()) }); }

#[cfg(kani)]
#[kani::proof]
fn intop_i8_saturating_neg() { let a: i8 = kani::any();assert!(a.saturating_neg() as i64 == if a == i8::MIN { i8::MAX as i64 } else { -(a as i64) }); }

#[cfg(kani)]
#[kani::proof]
fn intop_i8_abs() { let a: i8 = kani::any();kani::assume(a != i8::MIN); assert!(a.abs() as i64 == (a as i64).abs()); }

#[cfg(kani)]
#[kani::proof]
fn intop_i8_unsigned_abs() { let a: i8 = kani::any();assert!(a.unsigned_abs() as i64 == (a as i64).abs()); }

#[cfg(kani)]
#[kani::proof]
fn intop_i8_signum() { let a: i8 = kani::any();assert!(a.signum() as i64 == if a < 0 { -1 } else if a == 0 { 0 } else { 1 }); }

#[cfg(kani)]
#[kani::proof]
fn intop_i8_is_negative() { let a: i8 = kani::any();assert!(a.is_negative() == (a < 0)); }

#[cfg(kani)]
#[kani::proof]
fn intop_i8_is_positive() { let a: i8 = kani::any();assert!(a.is_positive() == (a > 0)); }

#[cfg(kani)]
#[kani::proof]
fn intop_i8_cast_unsigned() { let a: i8 = kani::any();assert!(a.cast_unsigned() as i64 == if a < 0 { a as i64 + (1i64 << 8) } else { a as i64 }); }

#[cfg(kani)]
#[kani::proof]
fn intop_i8_rem_euclid() { let a: i8 = kani::any();let b: i8 = kani::any();kani::assume(b != 0 && !(a == i8::MIN && b == -1)); let r = a.rem_euclid(b) as i64; let q = a.div_euclid(b) as i64; assert!(0 <= r && r < (b as i64).abs()); assert!(a as i64 == q * (b as i64) + r); }

#[cfg(kani)]
#[kani::proof]
fn intop_i8_div_euclid() { let a: i8 = kani::any();let b: i8 = kani::any();kani::assume(b != 0 && !(a == i8::MIN && b == -1)); let r = a.rem_euclid(b) as i64; let q = a.div_euclid(b) as i64; assert!(0 <= r && r < (b as i64).abs()); assert!(a as i64 == q * (b as i64) + r); }

#[cfg(kani)]
#[kani::proof]
fn intop_i32_saturating_add() { let a: i32 = kani::any();let b: i32 = kani::any();assert!(a.saturating_add(b) as i64 == (a as i64 + b as i64).clamp(i32::MIN as i64, i32::MAX as i64)); }

#[cfg(kani)]
#[kani::proof]
fn intop_i32_saturating_sub() { let a: i32 = kani::any();let b: i32 = kani::any();assert!(a.saturating_sub(b) as i64 == (a as i64 - b as i64).clamp(i32::MIN as i64, i32::MAX as i64)); }

#[cfg(kani)]
#[kani::proof]
fn intop_i32_saturating_mul() { let a: i32 = kani::any();let b: i32 = kani::any();assert!(a.saturating_mul(b) as i64 == (a as i64 * b as i64).clamp(i32::MIN as i64, i32::MAX as i64)); }

#[cfg(kani)]
#[kani::proof]
fn intop_i32_checked_shl() { let a: i32 = kani::any();let s: u32 = kani::any();assert!(a.checked_shl(s) == if s < 32 { Some(a.wrapping_shl(s)) } else { None }); }

#[cfg(kani)]
#[kani::proof]
fn intop_i32_checked_shr() { let a: i32 = kani::any();let s: u32 = kani::any();assert!(a.checked_shr(s) == if s < 32 { Some(a.wrapping_shr(s)) } else { None }); }

#[cfg(kani)]
#[kani::proof]
fn intop_i32_overflowing_add() { let a: i32 = kani::any();let b: i32 = kani::any();let (r, o) = a.overflowing_add(b); assert!(r == a.wrapping_add(b)); assert!(o == !(i32::MIN as i64 <= (a as i64 + b as i64) && (a as i64 + b as i64) <= i32::MAX as i64)); }

#[cfg(kani)]
#[kani::proof]
fn intop_i32_overflowing_sub() { let a: i32 = kani::any();let b: i32 = kani::any();let (r, o) = a.overflowing_sub(b); assert!(r == a.wrapping_sub(b)); assert!(o == !(i32::MIN as i64 <= (a as i64 - b as i64) && (a as i64 - b as i64) <= i32::MAX as i64)); }

#[cfg(kani)]
#[kani::proof]
fn intop_i32_overflowing_mul() { let a: i32 = kani::any();let b: i32 = kani::any();let (r, o) = a.overflowing_mul(b); assert!(r == a.wrapping_mul(b)); assert!(o == !(i32::MIN as i64 <= (a as i64 * b as i64) && (a as i64 * b as i64) <= i32::MAX as i64)); }

#[cfg(kani)]
#[kani::proof]
fn intop_i32_wrapping_neg() { let a: i32 = kani::any();assert!(a.wrapping_neg() as i64 == if a == i32::MIN { i32::MIN as i64 } else { -(a as i64) }); }

#[cfg(kani)]
#[kani::proof]
fn intop_i32_wrapping_abs() { let a: i32 = kani::any();assert!(a.wrapping_abs() as i64 == if a == i32::MIN { i32::MIN as i64 } else { (a as i64).abs() }); }

#[cfg(kani)]
#[kani::proof]
#[kani::solver(z3)]
fn intop_i32_wrapping_div() { let a: i32 = kani::any();let b: i32 = kani::any();kani::assume(b != 0); assert!(a.wrapping_div(b) == if a == i32::MIN && b == -1 { i32::MIN } else { a / b }); }

#[cfg(kani)]
#[kani::proof]
#[kani::solver(z3)]
fn intop_i32_wrapping_rem() { let a: i32 = kani::any();let b: i32 = kani::any();kani::assume(b != 0); assert!(a.wrapping_rem(b) == if b == -1 { 0 } else { a % b }); }

#[cfg(kani)]
#[kani::proof]
fn intop_i32_checked_neg() { let a: i32 = kani::any();assert!(a.checked_neg().map(|x| x as i64) == if a == i32::MIN { None } else { Some(-(a as i64)) }); }

#[cfg(kani)]
#[kani::proof]
fn intop_i32_checked_abs() { let a: i32 = kani::any();assert!(a.checked_abs().map(|x| x as i64) == if a == i32::MIN { None } else { Some((a as i64).abs()) }); }

#[cfg(kani)]
#[kani::proof]
fn intop_i32_saturating_neg() { let a: i32 = kani::any();assert!(a.saturating_neg() as i64 == if a == i32::MIN { i32::MAX as i64 } else { -(a as i64) }); }

#[cfg(kani)]
#[kani::proof]
fn intop_i32_abs() { let a: i32 = kani::any();kani::assume(a != i32::MIN); assert!(a.abs() as i64 == (a as i64).abs()); }

#[cfg(kani)]
#[kani::proof]
fn intop_i32_unsigned_abs() { let a: i32 = kani::any();assert!(a.unsigned_abs() as i64 == (a as i64).abs()); }

#[cfg(kani)]
#[kani::proof]
fn intop_i32_signum() { let a: i32 = kani::any();assert!(a.signum() as i64 == if a < 0 { -1 } else if a == 0 { 0 } else { 1 }); }

#[cfg(kani)]
#[kani::proof]
fn intop_i32_is_negative() { let a: i32 = kani::any();assert!(a.is_negative() == (a < 0)); }

#[cfg(kani)]
#[kani::proof]
fn intop_i32_is_positive() { let a: i32 = kani::any();assert!(a.is_positive() == (a > 0)); }

#[cfg(kani)]
#[kani::proof]
fn intop_i32_cast_unsigned() { let a: i32 = kani::any();assert!(a.cast_unsigned() as i64 == if a < 0 { a as i64 + (1i64 << 32) } else { a as i64 }); }

#[cfg(kani)]
#[kani::proof]
#[kani::solver(z3)]
fn intop_i32_rem_euclid() { let a: i32 = kani::any();let b: i32 = kani::any();kani::assume(b != 0 && !(a == i32::MIN && b == -1)); let r = a % b; let e = if r < 0 { if b < 0 { r - b } else { r + b } } else { r }; assert!(a.rem_euclid(b) == e); assert!(a.div_euclid(b) == if r < 0 { if b > 0 { a / b - 1 } else { a / b + 1 } } else { a / b }); }

#[cfg(kani)]
#[kani::proof]
#[kani::solver(z3)]
fn intop_i32_div_euclid() { let a: i32 = kani::any();let b: i32 = kani::any();kani::assume(b != 0 && !(a == i32::MIN && b == -1)); let r = a % b; let e = if r < 0 { if b < 0 { r - b } else { r + b } } else { r }; assert!(a.rem_euclid(b) == e); assert!(a.div_euclid(b) == if r < 0 { if b > 0 { a / b - 1 } else { a / b + 1 } } else { a / b }); }

#[cfg(kani)]
#[kani::proof]
fn intop_i64_saturating_add() { let a: i64 = kani::any();let b: i64 = kani::any();assert!(a.saturating_add(b) as i128 == (a as i128 + b as i128).clamp(i64::MIN as i128, i64::MAX as i128)); }

#[cfg(kani)]
#[kani::proof]
fn intop_i64_saturating_sub() { let a: i64 = kani::any();let b: i64 = kani::any();assert!(a.saturating_sub(b) as i128 == (a as i128 - b as i128).clamp(i64::MIN as i128, i64::MAX as i128)); }

#[cfg(kani)]
#[kani::proof]
fn intop_i64_saturating_mul() { let a: i64 = kani::any();let b: i64 = kani::any();assert!(a.saturating_mul(b) as i128 == (a as i128 * b as i128).clamp(i64::MIN as i128, i64::MAX as i128)); }

#[cfg(kani)]
#[kani::proof]
fn intop_i64_checked_shl() { let a: i64 = kani::any();let s: u32 = kani::any();assert!(a.checked_shl(s) == if s < 64 { Some(a.wrapping_shl(s)) } else { None }); }

#[cfg(kani)]
#[kani::proof]
fn intop_i64_checked_shr() { let a: i64 = kani::any();let s: u32 = kani::any();assert!(a.checked_shr(s) == if s < 64 { Some(a.wrapping_shr(s)) } else { None }); }

#[cfg(kani)]
#[kani::proof]
fn intop_i64_overflowing_add() { let a: i64 = kani::any();let b: i64 = kani::any();let (r, o) = a.overflowing_add(b); assert!(r == a.wrapping_add(b)); assert!(o == !(i64::MIN as i128 <= (a as i128 + b as i128) && (a as i128 + b as i128) <= i64::MAX as i128)); }

#[cfg(kani)]
#[kani::proof]
fn intop_i64_overflowing_sub() { let a: i64 = kani::any();let b: i64 = kani::any();let (r, o) = a.overflowing_sub(b); assert!(r == a.wrapping_sub(b)); assert!(o == !(i64::MIN as i128 <= (a as i128 - b as i128) && (a as i128 - b as i128) <= i64::MAX as i128)); }

#[cfg(kani)]
#[kani::proof]
fn intop_i64_overflowing_mul() { let a: i64 = kani::any();let b: i64 = kani::any();let (r, o) = a.overflowing_mul(b); assert!(r == a.wrapping_mul(b)); assert!(o == !(i64::MIN as i128 <= (a as i128 * b as i128) && (a as i128 * b as i128) <= i64::MAX as i128)); }

#[cfg(kani)]
#[kani::proof]
fn intop_i64_wrapping_neg() { let a: i64 = kani::any();assert!(a.wrapping_neg() as i128 == if a == i64::MIN { i64::MIN as i128 } else { -(a as i128) }); }

#[cfg(kani)]
#[kani::proof]
fn intop_i64_wrapping_abs() { let a: i64 = kani::any();assert!(a.wrapping_abs() as i128 == if a == i64::MIN { i64::MIN as i128 } else { (a as i128).abs() }); }

#[cfg(kani)]
#[kani::proof]
#[kani::solver(z3)]
fn intop_i64_wrapping_div() { let a: i64 = kani::any();let b: i64 = kani::any();kani::assume(b != 0); assert!(a.wrapping_div(b) == if a == i64::MIN && b == -1 { i64::MIN } else { a / b }); }

#[cfg(kani)]
#[kani::proof]
#[kani::solver(z3)]
fn intop_i64_wrapping_rem() { let a: i64 = kani::any();let b: i64 = kani::any();kani::assume(b != 0); assert!(a.wrapping_rem(b) == if b == -1 { 0 } else { a % b }); }

#[cfg(kani)]
#[kani::proof]
fn intop_i64_checked_neg() { let a: i64 = kani::any();assert!(a.checked_neg().map(|x| x as i128) == if a == i64::MIN { None } else { Some(-(a as i128)) }); }

#[cfg(kani)]
#[kani::proof]
fn intop_i64_checked_abs() { let a: i64 = kani::any();assert!(a.checked_abs().map(|x| x as i128) == if a == i64::MIN { None } else { Some((a as i128).abs()) }); }

#[cfg(kani)]
#[kani::proof]
fn intop_i64_saturating_neg() { let a: i64 = kani::any();assert!(a.saturating_neg() as i128 == if a == i64::MIN { i64::MAX as i128 } else { -(a as i128) }); }

#[cfg(kani)]
#[kani::proof]
fn intop_i64_abs() { let a: i64 = kani::any();kani::assume(a != i64::MIN); assert!(a.abs() as i128 == (a as i128).abs()); }

#[cfg(kani)]
#[kani::proof]
fn intop_i64_unsigned_abs() { let a: i64 = kani::any();assert!(a.unsigned_abs() as i128 == (a as i128).abs()); }

#[cfg(kani)]
#[kani::proof]
fn intop_i64_signum() { let a: i64 = kani::any();assert!(a.signum() as i128 == if a < 0 { -1 } else if a == 0 { 0 } else { 1 }); }

#[cfg(kani)]
#[kani::proof]
fn intop_i64_is_negative() { let a: i64 = kani::any();assert!(a.is_negative() == (a < 0)); }

#[cfg(kani)]
#[kani::proof]
fn intop_i64_is_positive() { let a: i64 = kani::any();assert!(a.is_positive() == (a > 0)); }

#[cfg(kani)]
#[kani::proof]
fn intop_i64_cast_unsigned() { let a: i64 = kani::any();assert!(a.cast_unsigned() as i128 == if a < 0 { a as i128 + (1i128 << 64) } else { a as i128 }); }

#[cfg(kani)]
#[kani::proof]
#[kani::solver(z3)]
fn intop_i64_rem_euclid() { let a: i64 = kani::any();let b: i64 = kani::any();kani::assume(b != 0 && !(a == i64::MIN && b == -1)); let r = a % b; let e = if r < 0 { if b < 0 { r - b } else { r + b } } else { r }; assert!(a.rem_euclid(b) == e); assert!(a.div_euclid(b) == if r < 0 { if b > 0 { a / b - 1 } else { a / b + 1 } } else { a / b }); }

#[cfg(kani)]
#[kani::proof]
#[kani::solver(z3)]
fn intop_i64_div_euclid() { let a: i64 = kani::any();let b: i64 = kani::any();kani::assume(b != 0 && !(a == i64::MIN && b == -1)); let r = a % b; let e = if r < 0 { if b < 0 { r - b } else { r + b } } else { r }; assert!(a.rem_euclid(b) == e); assert!(a.div_euclid(b) == if r < 0 { if b > 0 { a / b - 1 } else { a / b + 1 } } else { a / b }); }

#[cfg(kani)]
#[kani::proof]
fn intop_u8_checked_shl() { let a: u8 = kani::any();let s: u32 = kani::any();assert!(a.checked_shl(s) == if s < 8 { Some(a.wrapping_shl(s)) } else { None }); }

#[cfg(kani)]
#[kani::proof]
fn intop_u8_checked_shr() { let a: u8 = kani::any();let s: u32 = kani::any();assert!(a.checked_shr(s) == if s < 8 { Some(a.wrapping_shr(s)) } else { None }); }

#[cfg(kani)]
#[kani::proof]
fn intop_u8_overflowing_add() { let a: u8 = kani::any();let b: u8 = kani::any();let (r, o) = a.overflowing_add(b); assert!(r == a.wrapping_add(b)); assert!(o == !(u8::MIN as i64 <= (a as i64 + b as i64) && (a as i64 + b as i64) <= u8::MAX as i64)); }

#[cfg(kani)]
#[kani::proof]
fn intop_u8_overflowing_sub() { let a: u8 = kani::any();let b: u8 = kani::any();let (r, o) = a.overflowing_sub(b); assert!(r == a.wrapping_sub(b)); assert!(o == !(u8::MIN as i64 <= (a as i64 - b as i64) && (a as i64 - b as i64) <= u8::MAX as i64)); }

#[cfg(kani)]
#[kani::proof]
fn intop_u8_overflowing_mul() { let a: u8 = kani::any();let b: u8 = kani::any();let (r, o) = a.overflowing_mul(b); assert!(r == a.wrapping_mul(b)); assert!(o == !(u8::MIN as i64 <= (a as i64 * b as i64) && (a as i64 * b as i64) <= u8::MAX as i64)); }

#[cfg(kani)]
#[kani::proof]
fn intop_u8_cast_signed() { let a: u8 = kani::any();assert!(a.cast_signed() as i64 == if (a as i64) >= (1i64 << 7) { a as i64 - (1i64 << 8) } else { a as i64 }); }

#[cfg(kani)]
#[kani::proof]
fn intop_u8_abs_diff() { let a: u8 = kani::any();let b: u8 = kani::any();assert!(a.abs_diff(b) as i64 == (a as i64 - b as i64).abs()); }

#[cfg(kani)]
#[kani::proof]
fn intop_u32_checked_shl() { let a: u32 = kani::any();let s: u32 = kani::any();assert!(a.checked_shl(s) == if s < 32 { Some(a.wrapping_shl(s)) } else { None }); }

#[cfg(kani)]
#[kani::proof]
fn intop_u32_checked_shr() { let a: u32 = kani::any();let s: u32 = kani::any();assert!(a.checked_shr(s) == if s < 32 { Some(a.wrapping_shr(s)) } else { None }); }

#[cfg(kani)]
#[kani::proof]
fn intop_u32_overflowing_add() { let a: u32 = kani::any();let b: u32 = kani::any();let (r, o) = a.overflowing_add(b); assert!(r == a.wrapping_add(b)); assert!(o == !(u32::MIN as i128 <= (a as i128 + b as i128) && (a as i128 + b as i128) <= u32::MAX as i128)); }

#[cfg(kani)]
#[kani::proof]
fn intop_u32_overflowing_sub() { let a: u32 = kani::any();let b: u32 = kani::any();let (r, o) = a.overflowing_sub(b); assert!(r == a.wrapping_sub(b)); assert!(o == !(u32::MIN as i128 <= (a as i128 - b as i128) && (a as i128 - b as i128) <= u32::MAX as i128)); }

#[cfg(kani)]
#[kani::proof]
fn intop_u32_overflowing_mul() { let a: u32 = kani::any();let b: u32 = kani::any();let (r, o) = a.overflowing_mul(b); assert!(r == a.wrapping_mul(b)); assert!(o == !(u32::MIN as i128 <= (a as i128 * b as i128) && (a as i128 * b as i128) <= u32::MAX as i128)); }

#[cfg(kani)]
#[kani::proof]
fn intop_u32_cast_signed() { let a: u32 = kani::any();assert!(a.cast_signed() as i128 == if (a as i128) >= (1i128 << 31) { a as i128 - (1i128 << 32) } else { a as i128 }); }

#[cfg(kani)]
#[kani::proof]
fn intop_u32_abs_diff() { let a: u32 = kani::any();let b: u32 = kani::any();assert!(a.abs_diff(b) as i128 == (a as i128 - b as i128).abs()); }

#[cfg(kani)]
#[kani::proof]
fn intop_u64_checked_shl() { let a: u64 = kani::any();let s: u32 = kani::any();assert!(a.checked_shl(s) == if s < 64 { Some(a.wrapping_shl(s)) } else { None }); }

#[cfg(kani)]
#[kani::proof]
fn intop_u64_checked_shr() { let a: u64 = kani::any();let s: u32 = kani::any();assert!(a.checked_shr(s) == if s < 64 { Some(a.wrapping_shr(s)) } else { None }); }

#[cfg(kani)]
#[kani::proof]
fn intop_u64_overflowing_add() { let a: u64 = kani::any();let b: u64 = kani::any();let (r, o) = a.overflowing_add(b); assert!(r == a.wrapping_add(b)); assert!(o == !(u64::MIN as i128 <= (a as i128 + b as i128) && (a as i128 + b as i128) <= u64::MAX as i128)); }

#[cfg(kani)]
#[kani::proof]
fn intop_u64_overflowing_sub() { let a: u64 = kani::any();let b: u64 = kani::any();let (r, o) = a.overflowing_sub(b); assert!(r == a.wrapping_sub(b)); assert!(o == !(u64::MIN as i128 <= (a as i128 - b as i128) && (a as i128 - b as i128) <= u64::MAX as i128)); }

#[cfg(kani)]
#[kani::proof]
fn intop_u64_overflowing_mul() { let a: u64 = kani::any();let b: u64 = kani::any();let (r, o) = a.overflowing_mul(b); assert!(r == a.wrapping_mul(b)); assert!(o == !(u64::MIN as u128 <= (a as u128 * b as u128) && (a as u128 * b as u128) <= u64::MAX as u128)); }

#[cfg(kani)]
#[kani::proof]
fn intop_u64_cast_signed() { let a: u64 = kani::any();assert!(a.cast_signed() as i128 == if (a as i128) >= (1i128 << 63) { a as i128 - (1i128 << 64) } else { a as i128 }); }

#[cfg(kani)]
#[kani::proof]
fn intop_u64_abs_diff() { let a: u64 = kani::any();let b: u64 = kani::any();assert!(a.abs_diff(b) as i128 == (a as i128 - b as i128).abs()); }

#[cfg(kani)]
#[kani::proof]
fn intop_usize_checked_shl() { let a: usize = kani::any();let s: u32 = kani::any();assert!(a.checked_shl(s) == if s < 64 { Some(a.wrapping_shl(s)) } else { None }); }

#[cfg(kani)]
#[kani::proof]
fn intop_usize_checked_shr() { let a: usize = kani::any();let s: u32 = kani::any();assert!(a.checked_shr(s) == if s < 64 { Some(a.wrapping_shr(s)) } else { None }); }

#[cfg(kani)]
#[kani::proof]
fn intop_usize_overflowing_add() { let a: usize = kani::any();let b: usize = kani::any();let (r, o) = a.overflowing_add(b); assert!(r == a.wrapping_add(b)); assert!(o == !(usize::MIN as i128 <= (a as i128 + b as i128) && (a as i128 + b as i128) <= usize::MAX as i128)); }

#[cfg(kani)]
#[kani::proof]
fn intop_usize_overflowing_sub() { let a: usize = kani::any();let b: usize = kani::any();let (r, o) = a.overflowing_sub(b); assert!(r == a.wrapping_sub(b)); assert!(o == !(usize::MIN as i128 <= (a as i128 - b as i128) && (a as i128 - b as i128) <= usize::MAX as i128)); }

#[cfg(kani)]
#[kani::proof]
fn intop_usize_overflowing_mul() { let a: usize = kani::any();let b: usize = kani::any();let (r, o) = a.overflowing_mul(b); assert!(r == a.wrapping_mul(b)); assert!(o == !(usize::MIN as u128 <= (a as u128 * b as u128) && (a as u128 * b as u128) <= usize::MAX as u128)); }

#[cfg(kani)]
#[kani::proof]
fn intop_usize_cast_signed() { let a: usize = kani::any();assert!(a.cast_signed() as i128 == if (a as i128) >= (1i128 << 63) { a as i128 - (1i128 << 64) } else { a as i128 }); }

#[cfg(kani)]
#[kani::proof]
fn intop_usize_abs_diff() { let a: usize = kani::any();let b: usize = kani::any();assert!(a.abs_diff(b) as i128 == (a as i128 - b as i128).abs()); }

#[cfg(kani)]
#[kani::proof]
fn intop_i64_cmp_min() { let a: i64 = kani::any(); let b: i64 = kani::any(); assert!(core::cmp::min(a, b) == if a > b { b } else { a }); }

#[cfg(kani)]
#[kani::proof]
fn intop_i64_cmp_max() { let a: i64 = kani::any(); let b: i64 = kani::any(); assert!(core::cmp::max(a, b) == if a < b { b } else { a }); }

#[cfg(kani)]
#[kani::proof]
fn intop_i32_cmp_min() { let a: i32 = kani::any(); let b: i32 = kani::any(); assert!(core::cmp::min(a, b) == if a > b { b } else { a }); }

#[cfg(kani)]
#[kani::proof]
fn intop_i32_cmp_max() { let a: i32 = kani::any(); let b: i32 = kani::any(); assert!(core::cmp::max(a, b) == if a < b { b } else { a }); }

#[cfg(kani)]
#[kani::proof]
fn intop_u64_cmp_min() { let a: u64 = kani::any(); let b: u64 = kani::any(); assert!(core::cmp::min(a, b) == if a > b { b } else { a }); }

#[cfg(kani)]
#[kani::proof]
fn intop_u64_cmp_max() { let a: u64 = kani::any(); let b: u64 = kani::any(); assert!(core::cmp::max(a, b) == if a < b { b } else { a }); }

#[cfg(kani)]
#[kani::proof]
fn intop_usize_cmp_min() { let a: usize = kani::any(); let b: usize = kani::any(); assert!(core::cmp::min(a, b) == if a > b { b } else { a }); }

#[cfg(kani)]
#[kani::proof]
fn intop_usize_cmp_max() { let a: usize = kani::any(); let b: usize = kani::any(); assert!(core::cmp::max(a, b) == if a < b { b } else { a }); }
