#!/usr/bin/env python3
"""tools/unit.py <UID> : build, render and verify one unit against /repo; print its failures / undecided reasons."""
import os, sys
sys.path.insert(0, os.path.dirname(os.path.dirname(os.path.abspath(__file__))))
from vx import run as R
uid = sys.argv[1]
units, _ = R.registry()
findings = R.load_findings()
wd = os.path.join(R.VERIF, '.work', 'unit-' + uid)
os.makedirs(wd, exist_ok=True)
try:
    u = units[uid][0](R.REPO, findings)
except Exception as e:
    print('BUILD FAILED:', e); sys.exit(2)
ur = R.process_unit(u, findings, wd, None)
for v, fl in ur.failures.items():
    for f in fl:
        if v == 'canary' and f.in_canary: continue
        print('FAIL[%s] %s' % (v, f.name()))
        print('   ', (f.rendered or f.msg)[:1500].replace('\n', '\n    '))
for x in ur.undecided:
    print('UNDECIDED', x[:2500])
missing = sorted(set(ur.twins_expected) - ur.twins_failed)
print('unit %s: main failures=%d undecided=%d canary-missing=%s note=%s' % (uid, len(ur.failures.get('main', [])), len(ur.undecided), missing, getattr(ur, 'note', '')))
