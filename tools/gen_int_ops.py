#!/usr/bin/env python3
"""Generates contracts/std/int_ops.rs: assume_specifications for std integer methods that the installed Verus has no
spec for (probed one by one), so that a code change that swaps e.g. wrapping_mul for saturating_mul is *verified against
the contract* instead of stopping the run as "unsupported".  Each emitted spec is a closed form over mathematical
integers; tools/kani_int_ops discharges every one against real std over the full domain (thorough tier).
Run by hand when the Verus version changes; the output is committed."""
import os
import subprocess
import sys
import tempfile

SIGNED = {'i8': 8, 'i32': 32, 'i64': 64}
UNSIGNED = {'u8': 8, 'u32': 32, 'u64': 64, 'usize': 64}

def rng(t):
    return '%s::MIN <= %%s <= %s::MAX' % (t, t)

def cands(t, bits, signed):
    c = []
    clamp = lambda e: '(if %s < %s::MIN { %s::MIN } else if %s > %s::MAX { %s::MAX } else { (%s) as %s })' % (e, t, t, e, t, t, e, t)
    c.append(('saturating_add', '(a: %s, b: %s) -> (r: %s)' % (t, t, t), 'ensures r == %s' % clamp('a + b'), 'a.saturating_add(b)'))
    c.append(('saturating_sub', '(a: %s, b: %s) -> (r: %s)' % (t, t, t), 'ensures r == %s' % clamp('a - b'), 'a.saturating_sub(b)'))
    c.append(('saturating_mul', '(a: %s, b: %s) -> (r: %s)' % (t, t, t), 'ensures r == %s' % clamp('a * b'), 'a.saturating_mul(b)'))
    c.append(('checked_shl', '(a: %s, s: u32) -> (r: Option<%s>)' % (t, t), 'ensures r == (if s < %d { Some(a.wrapping_shl(s)) } else { None::<%s> })' % (bits, t), 'a.checked_shl(s)'))
    c.append(('checked_shr', '(a: %s, s: u32) -> (r: Option<%s>)' % (t, t), 'ensures r == (if s < %d { Some(a.wrapping_shr(s)) } else { None::<%s> })' % (bits, t), 'a.checked_shr(s)'))
    c.append(('overflowing_add', '(a: %s, b: %s) -> (r: (%s, bool))' % (t, t, t), 'ensures r.0 == a.wrapping_add(b), r.1 == !(%s::MIN <= a + b <= %s::MAX)' % (t, t), 'a.overflowing_add(b).0'))
    c.append(('overflowing_sub', '(a: %s, b: %s) -> (r: (%s, bool))' % (t, t, t), 'ensures r.0 == a.wrapping_sub(b), r.1 == !(%s::MIN <= a - b <= %s::MAX)' % (t, t), 'a.overflowing_sub(b).0'))
    c.append(('overflowing_mul', '(a: %s, b: %s) -> (r: (%s, bool))' % (t, t, t), 'ensures r.0 == a.wrapping_mul(b), r.1 == !(%s::MIN <= a * b <= %s::MAX)' % (t, t), 'a.overflowing_mul(b).0'))
    if signed:
        c.append(('wrapping_neg', '(a: %s) -> (r: %s)' % (t, t), 'ensures r == (if a == %s::MIN { %s::MIN } else { (-a) as %s })' % (t, t, t), 'a.wrapping_neg()'))
        c.append(('wrapping_abs', '(a: %s) -> (r: %s)' % (t, t), 'ensures r == (if a == %s::MIN { %s::MIN } else if a < 0 { (-a) as %s } else { a })' % (t, t, t), 'a.wrapping_abs()'))
        c.append(('wrapping_div', '(a: %s, b: %s) -> (r: %s)' % (t, t, t), 'requires b != 0\n    ensures r == (if a == %s::MIN && b == -1 { %s::MIN } else { cdiv(a as int, b as int) as %s })' % (t, t, t), 'a.wrapping_div(b)'))
        c.append(('wrapping_rem', '(a: %s, b: %s) -> (r: %s)' % (t, t, t), 'requires b != 0\n    ensures r == (if b == -1 { 0%s } else { crem(a as int, b as int) as %s })' % (t, t), 'a.wrapping_rem(b)'))
        c.append(('checked_neg', '(a: %s) -> (r: Option<%s>)' % (t, t), 'ensures r == (if a == %s::MIN { None::<%s> } else { Some((-a) as %s) })' % (t, t, t), 'a.checked_neg()'))
        c.append(('checked_abs', '(a: %s) -> (r: Option<%s>)' % (t, t), 'ensures r == (if a == %s::MIN { None::<%s> } else if a < 0 { Some((-a) as %s) } else { Some(a) })' % (t, t, t), 'a.checked_abs()'))
        c.append(('saturating_neg', '(a: %s) -> (r: %s)' % (t, t), 'ensures r == (if a == %s::MIN { %s::MAX } else { (-a) as %s })' % (t, t, t), 'a.saturating_neg()'))
        c.append(('abs', '(a: %s) -> (r: %s)' % (t, t), 'requires a != %s::MIN\n    ensures r == (if a < 0 { (-a) as %s } else { a })' % (t, t), 'a.abs()'))
        u = 'u' + t[1:]
        c.append(('unsigned_abs', '(a: %s) -> (r: %s)' % (t, u), 'ensures r == (if a < 0 { (-a) as %s } else { a as %s })' % (u, u), 'a.unsigned_abs()'))
        c.append(('signum', '(a: %s) -> (r: %s)' % (t, t), 'ensures r == (if a < 0 { -1%s } else if a == 0 { 0%s } else { 1%s })' % (t, t, t), 'a.signum()'))
        c.append(('is_negative', '(a: %s) -> (r: bool)' % t, 'ensures r == (a < 0)', 'a.is_negative()'))
        c.append(('is_positive', '(a: %s) -> (r: bool)' % t, 'ensures r == (a > 0)', 'a.is_positive()'))
        c.append(('cast_unsigned', '(a: %s) -> (r: %s)' % (t, u), 'ensures r == a as %s' % u, 'a.cast_unsigned()'))
        # C-style (truncating) division and remainder are what the exec operators compute; the *_euclid family differs for negatives
        c.append(('rem_euclid', '(a: %s, b: %s) -> (r: %s)' % (t, t, t), 'requires b != 0, !(a == %s::MIN && b == -1)\n    ensures r == ((a as int) %% (b as int)) as %s' % (t, t), 'a.rem_euclid(b)'))
        c.append(('div_euclid', '(a: %s, b: %s) -> (r: %s)' % (t, t, t), 'requires b != 0, !(a == %s::MIN && b == -1)\n    ensures r == ((a as int) / (b as int)) as %s' % (t, t), 'a.div_euclid(b)'))
    else:
        s = 'i' + t[1:] if t != 'usize' else 'isize'
        c.append(('cast_signed', '(a: %s) -> (r: %s)' % (t, s), 'ensures r == a as %s' % s, 'a.cast_signed()'))
        c.append(('abs_diff', '(a: %s, b: %s) -> (r: %s)' % (t, t, t), 'ensures r == (if a < b { (b - a) as %s } else { (a - b) as %s })' % (t, t), 'a.abs_diff(b)'))
    return c


def supported(t, expr):
    src = ('use vstd::prelude::*;\nverus!{\nfn t(a: %s, b: %s, s: u32) requires b != 0 { let r = %s; }\n}\nfn main(){}\n' % (t, t, expr))
    d = tempfile.mkdtemp()
    p = os.path.join(d, 'o.rs')
    open(p, 'w').write(src)
    r = subprocess.run(['verus', p, '--no-verify'], capture_output=True, text=True)
    out = r.stderr + r.stdout
    return 'not supported' not in out, out


def main():
    out = ['// GENERATED by tools/gen_int_ops.py for Verus %s — do not edit.' % subprocess.run(['verus', '--version'], capture_output=True, text=True).stdout.split('\n')[1].strip(),
           '// std integer methods the installed Verus has no specification for, with their closed forms (mathematical integers).',
           '// Every one is an ASSUMPTION in the Verus files and is discharged against real std by a loop-free full-domain Kani',
           '// harness in the thorough tier (tools/kani_int_ops).', '',
           '// C (truncating) division and remainder on mathematical integers: what Rust `/` `%` and wrapping_div / wrapping_rem compute.',
           '// NOTE: spec-mode `/` and `%` in Verus are Euclidean (SMT-LIB div/mod), which differs for negative operands.',
           'pub open spec fn cdiv(a: int, b: int) -> int {',
           '    let q = (if a < 0 { -a } else { a }) / (if b < 0 { -b } else { b });',
           '    if (a < 0) != (b < 0) { -q } else { q }',
           '}',
           'pub open spec fn crem(a: int, b: int) -> int { a - b * cdiv(a, b) }', '']
    listing = []
    for t, bits in list(SIGNED.items()) + list(UNSIGNED.items()):
        for name, sig, spec, expr in cands(t, bits, t in SIGNED):
            ok, _ = supported(t, expr)
            if ok:
                continue
            out.append('pub assume_specification [%s::%s] %s\n    %s;' % (t, name, sig, spec))
            listing.append('%s::%s' % (t, name))
    out.append('')
    out.append('// core::cmp::min / max (generic over Ord; the integer instances then reason as expected)')
    out.append('pub assume_specification<T: Ord> [core::cmp::min] (a: T, b: T) -> (r: T)\n    ensures (a.cmp_spec(&b) is Greater) ==> r == b, !(a.cmp_spec(&b) is Greater) ==> r == a;')
    out.append('pub assume_specification<T: Ord> [core::cmp::max] (a: T, b: T) -> (r: T)\n    ensures (a.cmp_spec(&b) is Greater) ==> r == a, !(a.cmp_spec(&b) is Greater) ==> r == b;')
    here = os.path.dirname(os.path.dirname(os.path.abspath(__file__)))
    open(os.path.join(here, 'contracts', 'std', 'int_ops.rs'), 'w').write('\n'.join(out) + '\n')
    open(os.path.join(here, 'contracts', 'std', 'int_ops.list'), 'w').write('\n'.join(listing) + '\n')
    print('%d assume_specifications' % len(listing))


if __name__ == '__main__':
    main()
