#!/bin/bash
# tools/try_seed.sh <patch.diff> <PROP-ID|unit:UID> : export /repo's HEAD sources to a scratch tree, apply the patch there and run the
# check (or one unit) against it with VERIF_REPO; the scratch tree is removed afterwards.  /repo itself is not touched.
P="$1"; WHAT="$2"
D=$(mktemp -d /tmp/vxseed.XXXXXX)
git -C /repo archive HEAD brush-core/src brush-parser/src brush-builtins/src brush-interactive/src brush-shell/src Cargo.toml | tar -x -C "$D"
if ! patch -s -p1 -d "$D" -i "$P"; then echo "PATCH-DOES-NOT-APPLY"; rm -rf "$D"; exit 3; fi
cd /verif
case "$WHAT" in
  unit:*) VERIF_REPO="$D" python3 tools/unit.py "${WHAT#unit:}" 2>&1 | grep -E "^FAIL\[main\]|^unit|UNDEC|BUILD" | cut -c1-260 ;;
  *) VERIF_REPO="$D" VERIF_WORK="$D/.work" ./check "$WHAT" 2>&1 | grep -E "VIOLATION|HELD|UNDEC|^  U|KNOWN" | cut -c1-260 ;;
esac
rm -rf "$D"
