#!/usr/bin/env python3
"""tools/check_replay_scripts.py: every candidate script of every unit's replay hook must print what is expected on the binary of the
unchanged tree (a wrong expectation would turn into a false failing input).  Run after adding candidates; needs /repo/target/debug/brush."""
import os, subprocess, sys
sys.path.insert(0, os.path.dirname(os.path.dirname(os.path.abspath(__file__))))
from vx import run as R
units, _ = R.registry()
findings = R.load_findings()
bad = 0
for uid, (builder, _props) in sorted(units.items()):
    try:
        u = builder(R.REPO, findings)
    except Exception as e:
        print('BUILD', uid, e); bad += 1; continue
    cb = getattr(u, 'counterexample', None)
    for script, expected in getattr(cb, 'candidates', []) or []:
        r = subprocess.run([os.path.join(R.REPO, 'target/debug/brush'), '--norc', '--noprofile', '-c', script], capture_output=True, text=True, timeout=30)
        ok = r.stdout == expected
        print('%s %s: %s' % ('ok  ' if ok else 'BAD ', uid, script[:90]))
        if not ok:
            print('     expected %r got %r' % (expected, r.stdout)); bad += 1
sys.exit(1 if bad else 0)
