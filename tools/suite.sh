#!/bin/bash
# tools/suite.sh [dir]  — run the pinned baseline suite in dir (default /repo) and print the sorted set of failing tests
D=${1:-/repo}
cd $D && cargo nextest run --workspace --no-fail-fast --tool-config-file pb:/w/lib/nextest.toml --profile pb --test-threads 8 --offline 2>&1 | grep -E "^\s+(FAIL|TIMEOUT|SIGNAL|LEAK)" | sed -E 's/^ *[A-Z]+ \[[^]]*\] *\([^)]*\) *//' | sort -u
