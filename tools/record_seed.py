#!/usr/bin/env python3
"""tools/record_seed.py <ID> <k> <name> — copy a confirmed sub-agent change from /tmp/wt/out/<ID>/<k> into /verif/seeded/<ID>-<k>-<name>/,
run the property's quick check against it (apply to /repo, check, undo) and write meta.json."""
import json, os, re, shutil, subprocess, sys

ID, k, name = sys.argv[1], sys.argv[2], sys.argv[3]
extra_props = [a for a in sys.argv[4:] if not a.startswith('--')]           # more properties whose checks should also be tried
src = '/tmp/wt/out/%s/%s' % (ID, k)
dst = '/verif/seeded/%s-%s-%s' % (ID, k, name)
os.makedirs(dst, exist_ok=True)
old_meta = {}
if os.path.exists(os.path.join(dst, 'meta.json')):
    try:
        old_meta = json.load(open(os.path.join(dst, 'meta.json')))
    except Exception:
        old_meta = {}
for f in ('patch.diff', 'demo.sh', 'demo.patch', 'demo_cmd.txt', 'notes.md'):
    p = os.path.join(src, f)
    if os.path.exists(p) and not (old_meta and '--recheck' in sys.argv):
        shutil.copy(p, os.path.join(dst, f))
for f in (os.listdir(src) if os.path.isdir(src) and '--recheck' not in sys.argv else []):
    if f.endswith('.rs'):
        shutil.copy(os.path.join(src, f), os.path.join(dst, f))
conf = {}
for f in ('confirm.txt', 'confirm2.txt'):
    p = os.path.join(src, f)
    if os.path.exists(p):
        conf[f] = open(p).read().strip()
# run the checks against the change
assert subprocess.run(['git', '-C', '/repo', 'status', '--porcelain'], capture_output=True, text=True).stdout.strip() == '', '/repo not clean'
subprocess.run(['git', '-C', '/repo', 'apply', os.path.join(dst, 'patch.diff')], check=True)
results = {}
try:
    for pid in [ID] + extra_props:
        r = subprocess.run(['./check', pid], cwd='/verif', capture_output=True, text=True)
        lines = [l for l in r.stdout.splitlines() if l.startswith('VIOLATION') or 'HELD' in l or 'UNDECIDED' in l]
        results[pid] = {'exit': r.returncode, 'lines': [l[:300] for l in lines[:6]]}
finally:
    subprocess.run(['git', '-C', '/repo', 'checkout', '--', '.'], check=True)
notes = open(os.path.join(dst, 'notes.md')).read() if os.path.exists(os.path.join(dst, 'notes.md')) else ''
meta = {
    'property': ID,
    'origin': 'independent sub-agent given only the property text and a scratch worktree (/tmp/wt/%s); nothing from /verif' % ID,
    'needs_to_manifest': '(see notes.md)',
    'confirmed_by_me': conf or old_meta.get('confirmed_by_me', {}),
    'confirmation_procedure': 'tools: /tmp/wt/confirm.sh (build; demo on unchanged and changed binary) and /tmp/wt/confirm2.sh (pinned baseline suite via tools/suite.sh on the unchanged and the changed worktree; failing sets compared)',
    'checks_against_it': results,
    'detected': any(v['exit'] == 1 for v in results.values()),
}
json.dump(meta, open(os.path.join(dst, 'meta.json'), 'w'), indent=1)
print(dst, json.dumps(results)[:400])
