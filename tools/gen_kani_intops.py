#!/usr/bin/env python3
"""Generates kani/intops (a standalone crate): one loop-free, full-domain Kani harness per assume_specification listed in
contracts/std/int_ops.list, comparing real std with the closed form of contracts/std/int_ops.rs evaluated in i128."""
import os

HERE = os.path.dirname(os.path.dirname(os.path.abspath(__file__)))
BITS = {'i8': 8, 'i32': 32, 'i64': 64, 'u8': 8, 'u32': 32, 'u64': 64, 'usize': 64}

PRE = '''#![allow(unused)]
fn cdiv(a: i128, b: i128) -> i128 { let q = a.abs().div_euclid(b.abs()); if (a < 0) != (b < 0) { -q } else { q } }
fn crem(a: i128, b: i128) -> i128 { a - b * cdiv(a, b) }
fn emod(a: i128, b: i128) -> i128 { let m = b.abs(); ((a % m) + m) % m }          // Euclidean remainder, 0 <= r < |b|
fn ediv(a: i128, b: i128) -> i128 { (a - emod(a, b)) / b }                         // Euclidean quotient
'''


def body(t, op):
    n = BITS[t]
    W = 'i128' if (n > 32 or (n == 32 and t.startswith('u'))) else 'i64'
    if t.startswith('u') and n == 64 and op.endswith('_mul'):
        W = 'u128'     # u64 * u64 does not fit i128
    lo, hi = '%s::MIN as W_' % t, '%s::MAX as W_' % t
    A = 'let a: %s = kani::any();' % t
    B = 'let b: %s = kani::any();' % t
    S = 'let s: u32 = kani::any();'
    w = lambda e: '(%s).clamp(%s, %s)' % (e, lo, hi)
    inr = lambda e: '(%s <= (%s) && (%s) <= %s)' % (lo, e, e, hi)
    z3 = False
    if op in ('saturating_add', 'saturating_sub', 'saturating_mul'):
        sym = {'saturating_add': '+', 'saturating_sub': '-', 'saturating_mul': '*'}[op]
        z3 = False
        code = A + B + 'assert!(a.%s(b) as i128 == %s);' % (op, w('a as i128 %s b as i128' % sym))
    elif op in ('checked_shl', 'checked_shr'):
        wr = 'wrapping_' + op[-3:]
        code = A + S + 'assert!(a.%s(s) == if s < %d { Some(a.%s(s)) } else { None });' % (op, n, wr)
    elif op in ('overflowing_add', 'overflowing_sub', 'overflowing_mul'):
        sym = {'overflowing_add': '+', 'overflowing_sub': '-', 'overflowing_mul': '*'}[op]
        wr = 'wrapping_' + op[-3:]
        z3 = False
        code = A + B + 'let (r, o) = a.%s(b); assert!(r == a.%s(b)); assert!(o == !%s);' % (op, wr, inr('a as i128 %s b as i128' % sym))
    elif op == 'wrapping_neg':
        code = A + 'assert!(a.wrapping_neg() as i128 == if a == %s::MIN { %s } else { -(a as i128) });' % (t, lo)
    elif op == 'wrapping_abs':
        code = A + 'assert!(a.wrapping_abs() as i128 == if a == %s::MIN { %s } else { (a as i128).abs() });' % (t, lo)
    elif op == 'wrapping_div' and n > 8:
        # 64-bit products of symbolic operands do not finish in CBMC/z3 (measured: > 5 min); at these widths the harness
        # checks wrapping_div against the language's own `/` (truncating division by the Rust reference — trusted)
        z3 = True
        code = A + B + 'kani::assume(b != 0); assert!(a.wrapping_div(b) == if a == %s::MIN && b == -1 { %s::MIN } else { a / b });' % (t, t)
    elif op == 'wrapping_rem' and n > 8:
        z3 = True
        code = A + B + 'kani::assume(b != 0); assert!(a.wrapping_rem(b) == if b == -1 { 0 } else { a % b });'
    elif op in ('rem_euclid', 'div_euclid') and n > 8:
        z3 = True
        code = A + B + 'kani::assume(b != 0 && !(a == %s::MIN && b == -1)); let r = a %% b; let e = if r < 0 { if b < 0 { r - b } else { r + b } } else { r }; assert!(a.rem_euclid(b) == e); assert!(a.div_euclid(b) == if r < 0 { if b > 0 { a / b - 1 } else { a / b + 1 } } else { a / b });' % t
    elif op == 'wrapping_div':
        z3 = True
        # truncating division is characterised without dividing: a == q*b + r, |r| < |b|, r == 0 or sign(r) == sign(a)
        code = A + B + 'kani::assume(b != 0); let q = a.wrapping_div(b) as i128; if a == %s::MIN && b == -1 { assert!(q == %s); } else { let r = a as i128 - q * (b as i128); assert!(r.abs() < (b as i128).abs()); assert!(r == 0 || (r < 0) == (a < 0)); }' % (t, lo)
    elif op == 'wrapping_rem':
        z3 = True
        code = A + B + 'kani::assume(b != 0); let r = a.wrapping_rem(b) as i128; if b == -1 { assert!(r == 0); } else { let q = a.wrapping_div(b) as i128; assert!(r == a as i128 - q * (b as i128)); assert!(r.abs() < (b as i128).abs()); assert!(r == 0 || (r < 0) == (a < 0)); }'
    elif op == 'checked_neg':
        code = A + 'assert!(a.checked_neg().map(|x| x as i128) == if a == %s::MIN { None } else { Some(-(a as i128)) });' % t
    elif op == 'checked_abs':
        code = A + 'assert!(a.checked_abs().map(|x| x as i128) == if a == %s::MIN { None } else { Some((a as i128).abs()) });' % t
    elif op == 'saturating_neg':
        code = A + 'assert!(a.saturating_neg() as i128 == if a == %s::MIN { %s } else { -(a as i128) });' % (t, hi)
    elif op == 'abs':
        code = A + 'kani::assume(a != %s::MIN); assert!(a.abs() as i128 == (a as i128).abs());' % t
    elif op == 'unsigned_abs':
        code = A + 'assert!(a.unsigned_abs() as i128 == (a as i128).abs());'
    elif op == 'signum':
        code = A + 'assert!(a.signum() as i128 == if a < 0 { -1 } else if a == 0 { 0 } else { 1 });'
    elif op == 'is_negative':
        code = A + 'assert!(a.is_negative() == (a < 0));'
    elif op == 'is_positive':
        code = A + 'assert!(a.is_positive() == (a > 0));'
    elif op == 'cast_unsigned':
        code = A + 'assert!(a.cast_unsigned() as i128 == if a < 0 { a as i128 + (1i128 << %d) } else { a as i128 });' % n
    elif op == 'cast_signed':
        code = A + 'assert!(a.cast_signed() as i128 == if (a as i128) >= (1i128 << %d) { a as i128 - (1i128 << %d) } else { a as i128 });' % (n - 1, n)
    elif op == 'rem_euclid':
        z3 = True
        code = A + B + 'kani::assume(b != 0 && !(a == %s::MIN && b == -1)); let r = a.rem_euclid(b) as i128; let q = a.div_euclid(b) as i128; assert!(0 <= r && r < (b as i128).abs()); assert!(a as i128 == q * (b as i128) + r);' % t
    elif op == 'div_euclid':
        z3 = True
        code = A + B + 'kani::assume(b != 0 && !(a == %s::MIN && b == -1)); let r = a.rem_euclid(b) as i128; let q = a.div_euclid(b) as i128; assert!(0 <= r && r < (b as i128).abs()); assert!(a as i128 == q * (b as i128) + r);' % t
    elif op == 'abs_diff':
        code = A + B + 'assert!(a.abs_diff(b) as i128 == (a as i128 - b as i128).abs());'
    else:
        return None
    code = code.replace('W_', W).replace('i128', W)
    if n < 32:
        z3 = False
    name = 'intop_%s_%s' % (t, op)
    return name, '#[cfg(kani)]\n#[kani::proof]\n%sfn %s() { %s }\n' % ('#[kani::solver(z3)]\n' if z3 else '', name, code)


def main():
    ops = [l.strip() for l in open(os.path.join(HERE, 'contracts', 'std', 'int_ops.list')) if l.strip()]
    out = [PRE]
    names = []
    for o in ops:
        t, op = o.split('::')
        r = body(t, op)
        if r is None:
            print('no harness for', o)
            continue
        names.append(r[0])
        out.append(r[1])
    for t in ('i64', 'i32', 'u64', 'usize'):
        for f in ('min', 'max'):
            names.append('intop_%s_cmp_%s' % (t, f))
            out.append('#[cfg(kani)]\n#[kani::proof]\nfn intop_%s_cmp_%s() { let a: %s = kani::any(); let b: %s = kani::any(); assert!(core::cmp::%s(a, b) == if a %s b { b } else { a }); }\n'
                       % (t, f, t, t, f, '>' if f == 'min' else '<'))
    d = os.path.join(HERE, 'kani', 'intops')
    os.makedirs(os.path.join(d, 'src'), exist_ok=True)
    open(os.path.join(d, 'src', 'lib.rs'), 'w').write('\n'.join(out))
    open(os.path.join(d, 'Cargo.toml'), 'w').write('[package]\nname = "vx_intops"\nversion = "0.0.0"\nedition = "2021"\n\n[lib]\npath = "src/lib.rs"\n\n[workspace]\n')
    os.makedirs(os.path.join(d, '.cargo'), exist_ok=True)
    open(os.path.join(d, '.cargo', 'config.toml'), 'w').write('[net]\noffline = true\n')
    open(os.path.join(d, 'harnesses.list'), 'w').write('\n'.join(names) + '\n')
    print('%d harnesses' % len(names))


if __name__ == '__main__':
    main()
