#!/bin/bash
# tools/seeds_regress.sh : re-run every recorded seeded change against the current /repo HEAD + current checks (scratch export; /repo untouched).
# Writes /verif/seeded/REGRESSION.txt : <seed> <property> <verdict line>
OUT=/verif/seeded/REGRESSION.txt; : > $OUT.tmp
for d in /verif/seeded/*/; do
  n=$(basename $d); id=${n%%-*}
  r=$(/verif/tools/try_seed.sh $d/patch.diff $id 2>&1 | grep -E "VIOLATION|HELD|UNDECIDED|PATCH-DOES-NOT-APPLY" | head -1 | cut -c1-200)
  echo "$n | $id | $r" >> $OUT.tmp
done
mv $OUT.tmp $OUT; echo regress-done
