#!/bin/bash
# tools/mut.sh <PID> <relative file> <sed expression>   — run a check against a scratch copy of /repo with one edit
set -e
PID=$1; F=$2; E=$3
D=$(mktemp -d /tmp/vxmut.XXXXXX)
rsync -a --exclude target --exclude .git /repo/ $D/
sed -i "$E" $D/$F
if cmp -s $D/$F /repo/$F; then echo "MUTANT-NOOP $F $E"; rm -rf $D; exit 3; fi
cd /verif
VERIF_REPO=$D VERIF_WORK=$D/.vxwork ./check $PID | grep -E "VIOLATION|HELD|UNDECIDED|KNOWN|^  " | cut -c1-220 || true
rm -rf $D
